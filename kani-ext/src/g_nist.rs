//! G5/G6: NIST curves through the generic impl in src/key_exchange/group/elliptic_curve.rs
use opaque_ke::key_exchange::group::KeGroup;
use p256::NistP256;

use crate::verif_kani::vk::*;
use crate::verif_kani::{check, cover};

/// order of P-256 (FIPS 186-4 D.1.2.3), big-endian
const N256: [u8; 32] = [
    0xff, 0xff, 0xff, 0xff, 0x00, 0x00, 0x00, 0x00, 0xff, 0xff, 0xff, 0xff, 0xff, 0xff, 0xff, 0xff, 0xbc, 0xe6, 0xfa, 0xad, 0xa7, 0x17, 0x9e, 0x84,
    0xf3, 0xb9, 0xca, 0xc2, 0xfc, 0x63, 0x25, 0x51,
];

fn lt_be(b: &[u8; 32], n: &[u8; 32]) -> bool {
    let mut lt = false;
    let mut eq = true;
    let mut i = 0;
    while i < 32 {
        if eq {
            if b[i] < n[i] {
                lt = true;
                eq = false;
            } else if b[i] > n[i] {
                eq = false;
            }
        }
        i += 1;
    }
    lt
}

/// generator of P-256, x-coordinate (SEC 2, 2.4.2); y is even? Gy ends in ...f5 (odd) => compressed tag 0x03
const GX: [u8; 32] = [
    0x6b, 0x17, 0xd1, 0xf2, 0xe1, 0x2c, 0x42, 0x47, 0xf8, 0xbc, 0xe6, 0xe5, 0x63, 0xa4, 0x40, 0xf2, 0x77, 0x03, 0x7d, 0x81, 0x2d, 0xeb, 0x33, 0xa0,
    0xf4, 0xa1, 0x39, 0x45, 0xd8, 0x98, 0xc2, 0x96,
];

/// P-256 / SHA-256 suite (OPRF elements go through voprf's NIST element decoder)
pub struct P256Suite;
impl opaque_ke::CipherSuite for P256Suite {
    type OprfCs = NistP256;
    type KeGroup = NistP256;
    type KeyExchange = opaque_ke::key_exchange::tripledh::TripleDh;
    type Ksf = opaque_ke::ksf::Identity;
}

fn pk_with_tag(tag: u8) -> [u8; 33] {
    let mut b = [0u8; 33];
    b[0] = tag;
    put(&mut b[1..], &GX);
    b
}

harnesses! {
    /// G5: P-256 private key decode accepts exactly 0 < v < n and returns it unchanged
    fn g5_p256_sk_decode [unwind = 40] {
        let b = any_bytes::<32>();
        let mut nz = 0u8;
        let mut i = 0;
        while i < 32 { nz |= b[i]; i += 1; }
        let valid = lt_be(&b, &N256) && nz != 0;
        match NistP256::deserialize_sk(&b) {
            Ok(sk) => {
                check!(valid, "zero or out-of-range P-256 scalar accepted");
                check!(eq_bytes(&NistP256::serialize_sk(sk), &b), "scalar re-encodes to the input");
                cover!(true, "ok");
            }
            Err(_) => { check!(!valid, "every scalar in 1..n-1 is accepted"); cover!(true, "err"); }
        }
    }

    /// G5: a P-256 private key of any length other than 32 is refused (the underlying `elliptic_curve::SecretKey::from_slice`
    /// zero-pads 24..31-byte inputs: such a key would decode from an encoding it does not re-encode to). Content: 0x01 in
    /// every byte (a valid scalar at every length) with a symbolic last byte; the lengths are what is explored.
    fn g5_p256_sk_lengths [unwind = 70] {
        let mut b = [1u8; 40];
        let last = any_u8();
        let mut len = 0;
        while len <= 40 {
            if len != 32 {
                if len > 0 { b[len - 1] = last; }
                check!(NistP256::deserialize_sk(&b[..len]).is_err(), "P-256 private key of a wrong length accepted (decodes from an encoding it does not re-encode to)");
                if len > 0 { b[len - 1] = 1; }
            }
            len += 1;
        }
        cover!(true, "reached");
    }

    /// G5: the same for P-384 (48 bytes) through the same generic impl
    fn g5_p384_sk_lengths [unwind = 70] {
        let mut b = [1u8; 56];
        let last = any_u8();
        let mut len = 0;
        while len <= 56 {
            if len != 48 {
                if len > 0 { b[len - 1] = last; }
                check!(p384::NistP384::deserialize_sk(&b[..len]).is_err(), "P-384 private key of a wrong length accepted (decodes from an encoding it does not re-encode to)");
                if len > 0 { b[len - 1] = 1; }
            }
            len += 1;
        }
        cover!(true, "reached");
    }

    /// G6: every tag byte other than 0,2,3,4,5 is refused whatever follows (33-byte input, symbolic x)
    fn g6_p256_pk_unknown_tags [unwind = 40] {
        let b = any_bytes::<33>();
        assume(b[0] != 0 && b[0] != 2 && b[0] != 3 && b[0] != 4 && b[0] != 5);
        check!(NistP256::deserialize_pk(&b).is_err(), "unknown SEC1 tag accepted");
        cover!(true, "reached");
    }

    /// G6: 33-byte strings with tag 0 (identity), 4 (uncompressed) or 5 (compact) and a valid x are refused; tags 2/3
    /// with the generator's x are accepted and re-encode to the input (tag and x concrete per case: the field
    /// arithmetic of decompression stays concrete for the solver)
    fn g6_p256_pk_tag_cases [unwind = 70] {
        let tags = [0u8, 2, 3, 4, 5];
        let mut i = 0;
        while i < 5 {
            let t = tags[i];
            let b = pk_with_tag(t);
            match NistP256::deserialize_pk(&b) {
                Ok(pk) => {
                    check!(eq_bytes(&NistP256::serialize_pk(pk), &b), "public key decodes from an encoding it does not re-encode to");
                    cover!(t == 2 || t == 3, "ok");
                }
                Err(_) => { check!(t != 2 && t != 3, "a valid compressed point is accepted"); cover!(true, "err"); }
            }
            i += 1;
        }
    }

    /// G6 (quick): a 33-byte string with a valid x and tag 0 (identity), 4 (uncompressed) or 5 (compact) is refused
    fn g6_p256_pk_bad_tags [unwind = 70] {
        check!(NistP256::deserialize_pk(&pk_with_tag(0)).is_err(), "identity tag accepted for a public key");
        check!(NistP256::deserialize_pk(&pk_with_tag(4)).is_err(), "uncompressed tag accepted for a 33-byte public key");
        check!(NistP256::deserialize_pk(&pk_with_tag(5)).is_err(), "SEC1 compact tag accepted: second encoding of a public key");
        cover!(true, "reached");
    }
    /// G6 (C10, known finding F4): an OPRF element with the SEC1 compact tag 0x05 in a RegistrationRequest (voprf's NIST element
    /// decoder = `PublicKey::from_sec1_bytes`): accepted and re-encoded with tag 0x02/0x03 — a second encoding of one message
    #[cfg_attr(kani, kani::stub(subtle::black_box, crate::verif_kani::vk::identity_bb))]
    fn g6_p256_oprf_elem_compact_tag [unwind = 70] {
        let b = pk_with_tag(5);
        match opaque_ke::RegistrationRequest::<P256Suite>::deserialize(&b) {
            Ok(m) => {
                check!(eq_bytes(&m.serialize(), &b), "OPRF element decodes from an encoding it does not re-encode to (SEC1 compact tag 0x05)");
                core::mem::forget(m);
            }
            Err(_) => {}
        }
        cover!(true, "reached");
    }

    /// G6 (C10/C11): OPRF element tags 0 (identity) and 4 (uncompressed, 33 bytes) are refused; 2 / 3 decode and re-encode to the input
    #[cfg_attr(kani, kani::stub(subtle::black_box, crate::verif_kani::vk::identity_bb))]
    fn g6_p256_oprf_elem_other_tags [unwind = 70] {
        let tags = [0u8, 2, 3, 4];
        let mut i = 0;
        while i < 4 {
            let t = tags[i];
            let b = pk_with_tag(t);
            match opaque_ke::RegistrationRequest::<P256Suite>::deserialize(&b) {
                Ok(m) => {
                    check!(t == 2 || t == 3, "OPRF element with the identity / uncompressed tag accepted in a 33-byte message");
                    check!(eq_bytes(&m.serialize(), &b), "OPRF element decodes from an encoding it does not re-encode to");
                    cover!(true, "ok");
                    core::mem::forget(m);
                }
                Err(_) => { check!(t != 2 && t != 3, "a valid compressed OPRF element is accepted"); cover!(true, "err"); }
            }
            i += 1;
        }
    }
}
