//! G — concrete groups (DESIGN.md §3.2)
#![allow(dead_code, unused_imports, unexpected_cfgs, static_mut_refs)]

// the facade's macros refer to `$crate::verif_kani::vk`
pub mod verif_kani {
    include!("/verif/harness/common/macros.rs");
    #[path = "/verif/harness/common/vk.rs"]
    pub mod vk;
    pub(crate) use {check, cover};
}
use verif_kani::vk::*;
use verif_kani::{check, cover};

macro_rules! harnesses {
    ($( $(#[$m:meta])* fn $name:ident [unwind = $u:literal] $body:block )*) => {
        $(
            $(#[$m])*
            #[cfg_attr(kani, kani::proof)]
            #[cfg_attr(kani, kani::unwind($u))]
            #[cfg_attr(kani, kani::stub(zeroize::optimization_barrier, crate::verif_kani::vk::noop_barrier))]
            #[cfg_attr(kani, kani::stub(<[u8]>::copy_from_slice, crate::verif_kani::vk::elementwise_copy))]
            pub fn $name() $body
        )*
        pub const TABLE: &[(&str, fn())] = &[ $( (stringify!($name), $name as fn()) ),* ];
    };
}

#[path = "/verif/harness/common/flatserde.rs"]
pub mod flat;
pub mod g_curve25519;
pub mod g_ristretto;
pub mod g_nist;
pub mod g_serde;

pub fn tables() -> [&'static [(&'static str, fn())]; 4] {
    [g_curve25519::TABLE, g_ristretto::TABLE, g_nist::TABLE, g_serde::TABLE]
}

#[cfg(not(kani))]
pub fn run_replay(name: &str, vals: Vec<Vec<u8>>) -> Option<(Vec<String>, bool, bool, usize, Option<String>, Vec<String>)> {
    let mut f: Option<fn()> = None;
    for t in tables().iter() {
        for (n, h) in t.iter() {
            if *n == name {
                f = Some(*h);
            }
        }
    }
    let f = f?;
    R.with(|r| {
        let mut r = r.borrow_mut();
        r.vals = vals;
        r.pos = 0;
        r.failed.clear();
        r.covered.clear();
        r.assume_violated = false;
        r.underrun = false;
    });
    let res = std::panic::catch_unwind(f);
    let mut panicked = None;
    if let Err(e) = res {
        if e.downcast_ref::<AssumeViolated>().is_none() {
            panicked = Some(if let Some(s) = e.downcast_ref::<&str>() { s.to_string() } else if let Some(s) = e.downcast_ref::<String>() { s.clone() } else { "panic".to_string() });
        }
    }
    R.with(|r| {
        let r = r.borrow();
        Some((r.failed.clone(), r.assume_violated, r.underrun, r.vals.len() - r.pos.min(r.vals.len()), panicked.clone(), r.covered.clone()))
    })
}
