//! G1–G3: Curve25519 (src/key_exchange/group/curve25519.rs), all 2^256 inputs.
use generic_array::GenericArray;
use opaque_ke::key_exchange::group::KeGroup;
use opaque_ke::Curve25519;

use crate::verif_kani::vk::*;
use crate::verif_kani::{check, cover};

fn clamp(mut b: [u8; 32]) -> [u8; 32] {
    // RFC 7748 §5 decodeScalar25519
    b[0] &= 248;
    b[31] &= 127;
    b[31] |= 64;
    b
}

/// little-endian compare of a 32-byte string with a constant
fn eq32(a: &[u8], c: &[u8; 32]) -> bool {
    let mut acc = 0u8;
    let mut i = 0;
    while i < 32 {
        acc |= a[i] ^ c[i];
        i += 1;
    }
    acc == 0
}

const fn hex32(s: &str) -> [u8; 32] {
    let b = s.as_bytes();
    let mut out = [0u8; 32];
    let mut i = 0;
    while i < 32 {
        let h = b[2 * i];
        let l = b[2 * i + 1];
        let hv = if h >= b'a' { h - b'a' + 10 } else { h - b'0' };
        let lv = if l >= b'a' { l - b'a' + 10 } else { l - b'0' };
        out[i] = hv * 16 + lv;
        i += 1;
    }
    out
}

/// The u-coordinates of the points of order 1, 2, 4, 8 on Curve25519 and its twist, as canonical little-endian
/// field elements (RFC 7748 §7 "small order points"; the list published with libsodium / Cremers-Jackson 2019):
/// 0, 1, 325606250916557431795983626356110631294008115727848805560023387167927233504,
/// 39382357235489614581723060781553021112529911719440698176882885853963445705823, p-1
pub const SMALL_ORDER: [[u8; 32]; 5] = [
    hex32("0000000000000000000000000000000000000000000000000000000000000000"),
    hex32("0100000000000000000000000000000000000000000000000000000000000000"),
    hex32("e0eb7a7c3b41b8ae1656e3faf19fc46ada098deb9c32b1fd866205165f49b800"),
    hex32("5f9c95bca3508c24b1d0b1559c83ef5b04445cc4581c8e86d8224eddd09f1157"),
    hex32("ecffffffffffffffffffffffffffffffffffffffffffffffffffffffffffff7f"),
];

/// canonical representative (mod p = 2^255-19) of a 32-byte little-endian string, high bit ignored (RFC 7748 §5)
fn canonical(u: &[u8]) -> [u8; 32] {
    let mut x = [0u8; 32];
    put(&mut x, u);
    x[31] &= 0x7f;
    // x >= p  <=>  x[31]==0x7f && x[1..31]==0xff.. && x[0] >= 0xed ; then x - p = x[0] - 0xed
    let mut all_ff = x[31] == 0x7f;
    let mut i = 1;
    while i < 31 {
        all_ff &= x[i] == 0xff;
        i += 1;
    }
    if all_ff && x[0] >= 0xed {
        let low = x[0] - 0xed;
        x = [0u8; 32];
        x[0] = low;
    }
    x
}

pub fn is_small_order(u: &[u8]) -> bool {
    let c = canonical(u);
    let mut hit = false;
    let mut i = 0;
    while i < 5 {
        hit |= eq32(&c, &SMALL_ORDER[i]);
        i += 1;
    }
    hit
}

harnesses! {
    /// G1: deserialize_sk accepts exactly the clamped strings and returns them unchanged
    fn g1_x25519_sk_decode [unwind = 40] {
        let b = any_bytes::<32>();
        let clamped = clamp(b);
        let r = Curve25519::deserialize_sk(&b);
        match r {
            Ok(sk) => {
                check!(eq_bytes(&clamped, &b), "only RFC 7748-clamped scalars are accepted");
                check!(eq_bytes(&Curve25519::serialize_sk(sk), &b), "private key re-encodes to the input");
                cover!(true, "ok");
            }
            Err(_) => { check!(!eq_bytes(&clamped, &b), "every clamped scalar is accepted"); cover!(true, "err"); }
        }
    }

    /// G1: other lengths are refused
    fn g1_x25519_sk_lengths [unwind = 70] {
        let buf = any_bytes::<64>();
        let mut len = 0;
        while len <= 64 {
            if len != 32 {
                check!(Curve25519::deserialize_sk(&buf[..len]).is_err(), "private key of the wrong length is refused");
            }
            len += 1;
        }
        cover!(true, "reached");
    }

    /// G3: DeriveDiffieHellmanKeyPair for Curve25519 == RFC 7748 clamp of the seed (all seeds), valid and non-zero
    fn g3_x25519_derive [unwind = 40] {
        let seed = any_bytes::<32>();
        let r = Curve25519::derive_auth_keypair::<opaque_ke::Ristretto255>(GenericArray::from(seed));
        check!(r.is_ok(), "derivation succeeds for every seed");
        if let Ok(sk) = r {
            check!(eq_bytes(&sk, &clamp(seed)), "derived key == clamp(seed)");
            check!(Curve25519::deserialize_sk(&sk).is_ok(), "derived key is a valid private key");
            check!(!bool::from(Curve25519::is_zero_scalar(sk)), "derived key is non-zero");
            cover!(true, "reached");
        }
    }

    /// G2a: public key decode: length 32 only, re-encodes to the input
    fn g2_x25519_pk_roundtrip [unwind = 70] {
        let buf = any_bytes::<64>();
        let mut len = 0;
        while len <= 64 {
            if len != 32 {
                check!(Curve25519::deserialize_pk(&buf[..len]).is_err(), "public key of the wrong length is refused");
            }
            len += 1;
        }
        if let Ok(pk) = Curve25519::deserialize_pk(&buf[..32]) {
            check!(eq_bytes(&Curve25519::serialize_pk(pk), &buf[..32]), "public key re-encodes to the input");
            cover!(true, "ok");
        }
    }

    /// G2b (C11): a small-order u-coordinate (canonical or not, with or without bit 255) is never accepted
    fn g2_x25519_pk_small_order [unwind = 40] {
        let b = any_bytes::<32>();
        let r = Curve25519::deserialize_pk(&b);
        if r.is_ok() {
            check!(!is_small_order(&b), "small-order Curve25519 point accepted (would force an all-zero shared secret)");
            cover!(true, "ok");
        } else {
            cover!(true, "err");
        }
    }

    /// G2c (C10): two different accepted encodings are never the same key
    fn g2_x25519_pk_no_alias [unwind = 40] {
        let a = any_bytes::<32>();
        let b = any_bytes::<32>();
        assume(!eq_bytes(&a, &b));
        if let (Ok(x), Ok(y)) = (Curve25519::deserialize_pk(&a), Curve25519::deserialize_pk(&b)) {
            check!(x != y, "two different byte strings decode to the same public key");
            cover!(true, "both decode");
        }
    }

    /// G2c restricted to canonical encodings (u < p, bit 255 clear): no aliasing there
    fn g2_x25519_pk_no_alias_canonical [unwind = 40] {
        let a = any_bytes::<32>();
        let b = any_bytes::<32>();
        assume(!eq_bytes(&a, &b));
        assume(eq_bytes(&canonical(&a), &a) && eq_bytes(&canonical(&b), &b));
        if let (Ok(x), Ok(y)) = (Curve25519::deserialize_pk(&a), Curve25519::deserialize_pk(&b)) {
            check!(x != y, "two different canonical byte strings decode to the same public key");
            cover!(true, "both decode");
        }
    }
}
