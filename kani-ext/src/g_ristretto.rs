//! G4: ristretto255 (src/key_exchange/group/ristretto255.rs)
use opaque_ke::key_exchange::group::KeGroup;
use opaque_ke::Ristretto255;

use crate::verif_kani::vk::*;
use crate::verif_kani::{check, cover};

/// group order l = 2^252 + 27742317777372353535851937790883648493, little-endian
const L: [u8; 32] = [
    0xed, 0xd3, 0xf5, 0x5c, 0x1a, 0x63, 0x12, 0x58, 0xd6, 0x9c, 0xf7, 0xa2, 0xde, 0xf9, 0xde, 0x14, 0, 0, 0, 0, 0, 0, 0, 0, 0, 0, 0, 0, 0, 0, 0, 0x10,
];

fn lt_l(b: &[u8; 32]) -> bool {
    // b < L, little-endian, from the most significant byte down
    let mut lt = false;
    let mut eq = true;
    let mut i = 32;
    while i > 0 {
        i -= 1;
        if eq {
            if b[i] < L[i] {
                lt = true;
                eq = false;
            } else if b[i] > L[i] {
                eq = false;
            }
        }
    }
    lt
}

harnesses! {
    /// G4: scalar decode accepts exactly 0 < s < l and returns it unchanged
    fn g4_ristretto_sk_decode [unwind = 40] {
        let b = any_bytes::<32>();
        let mut nz = 0u8;
        let mut i = 0;
        while i < 32 { nz |= b[i]; i += 1; }
        let valid = lt_l(&b) && nz != 0;
        match Ristretto255::deserialize_sk(&b) {
            Ok(sk) => {
                check!(valid, "zero or non-canonical (>= group order) scalar accepted");
                check!(eq_bytes(&Ristretto255::serialize_sk(sk), &b), "scalar re-encodes to the input");
                cover!(true, "ok");
            }
            Err(_) => { check!(!valid, "every canonical non-zero scalar is accepted"); cover!(true, "err"); }
        }
    }

    /// G4: wrong lengths refused for both key kinds (point decompression itself — identity, non-canonical
    /// encodings — needs a symbolic field square root: outside reach, see DESIGN.md)
    fn g4_ristretto_lengths_identity [unwind = 70] {
        let buf = any_bytes::<64>();
        let mut len = 0;
        while len <= 64 {
            if len != 32 {
                check!(Ristretto255::deserialize_sk(&buf[..len]).is_err(), "private key of the wrong length is refused");
                check!(Ristretto255::deserialize_pk(&buf[..len]).is_err(), "public key of the wrong length is refused");
            }
            len += 1;
        }
        cover!(true, "reached");
    }
}
