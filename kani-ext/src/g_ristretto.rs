//! G4: ristretto255 (src/key_exchange/group/ristretto255.rs)
use opaque_ke::key_exchange::group::KeGroup;
use opaque_ke::Ristretto255;

use crate::verif_kani::vk::*;
use crate::verif_kani::{check, cover};

/// group order l = 2^252 + 27742317777372353535851937790883648493, little-endian
pub const L: [u8; 32] = [
    0xed, 0xd3, 0xf5, 0x5c, 0x1a, 0x63, 0x12, 0x58, 0xd6, 0x9c, 0xf7, 0xa2, 0xde, 0xf9, 0xde, 0x14, 0, 0, 0, 0, 0, 0, 0, 0, 0, 0, 0, 0, 0, 0, 0, 0x10,
];

fn lt_l(b: &[u8; 32]) -> bool {
    // b < L, little-endian, from the most significant byte down
    let mut lt = false;
    let mut eq = true;
    let mut i = 32;
    while i > 0 {
        i -= 1;
        if eq {
            if b[i] < L[i] {
                lt = true;
                eq = false;
            } else if b[i] > L[i] {
                eq = false;
            }
        }
    }
    lt
}

fn le_bytes_of_l_plus(delta: i32) -> [u8; 32] {
    // l + delta for small |delta| (no borrow/carry beyond the low byte pair for the values used: L[0] = 0xed)
    let mut b = L;
    let v = b[0] as i32 + delta;
    b[0] = v as u8;
    b
}

harnesses! {
    /// G4: an accepted scalar re-encodes to the input; bit 255 set is always refused (symbolic); boundary values
    /// (0, 1, l-1, l, l+1, 2^252, 2^252-1, 2^253) decided on concrete bytes pushed through the engine. The full
    /// statement "Ok <=> 0 < s < l" for all 2^256 strings needs the solver to reason about Montgomery reduction
    /// (52-bit limb multiplications): it did not finish in 30 minutes and is outside reach.
    fn g4_ristretto_sk_decode [unwind = 40] {
        let b = any_bytes::<32>();
        match Ristretto255::deserialize_sk(&b) {
            Ok(sk) => {
                check!(b[31] & 0x80 == 0, "scalar with bit 255 set accepted");
                check!(eq_bytes(&Ristretto255::serialize_sk(sk), &b), "scalar re-encodes to the input");
                cover!(true, "ok");
            }
            Err(_) => { cover!(true, "err"); }
        }
    }

    fn g4_ristretto_sk_boundaries [unwind = 40] {
        let zero = [0u8; 32];
        let mut one = [0u8; 32];
        one[0] = 1;
        let mut p252 = [0u8; 32];
        p252[31] = 0x10;
        let mut p252m1 = [0xffu8; 32];
        p252m1[31] = 0x0f;
        let mut p253 = [0u8; 32];
        p253[31] = 0x20;
        check!(Ristretto255::deserialize_sk(&zero).is_err(), "zero scalar accepted");
        check!(Ristretto255::deserialize_sk(&one).is_ok(), "scalar 1 refused");
        check!(Ristretto255::deserialize_sk(&le_bytes_of_l_plus(-1)).is_ok(), "scalar l-1 refused");
        check!(Ristretto255::deserialize_sk(&L).is_err(), "scalar l accepted");
        check!(Ristretto255::deserialize_sk(&le_bytes_of_l_plus(1)).is_err(), "scalar l+1 accepted");
        check!(Ristretto255::deserialize_sk(&p252).is_ok(), "scalar 2^252 refused");
        check!(Ristretto255::deserialize_sk(&p252m1).is_ok(), "scalar 2^252-1 refused");
        check!(Ristretto255::deserialize_sk(&p253).is_err(), "scalar 2^253 accepted");
        cover!(true, "reached");
    }

    /// G4: private keys of the wrong length refused (public-key decoding — lengths, identity, non-canonical
    /// encodings — runs into point decompression — identity, non-canonical
    /// encodings — needs a symbolic field square root: outside reach, see DESIGN.md)
    fn g4_ristretto_lengths_identity [unwind = 70] {
        let buf = any_bytes::<64>();
        let mut len = 0;
        while len <= 64 {
            if len != 32 {
                check!(Ristretto255::deserialize_sk(&buf[..len]).is_err(), "private key of the wrong length is refused");
            }
            len += 1;
        }
        cover!(true, "reached");
    }
}
