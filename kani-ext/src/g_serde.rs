//! G-serde: the keypair.rs serde impls on the real key-exchange groups, driven by the byte-verbatim format `flat`
//! (harness/common/flatserde.rs), and the identity encoding of ristretto255 through the native and the serde decoder.
use opaque_ke::key_exchange::group::KeGroup;
use opaque_ke::keypair::{PrivateKey, PublicKey};
use opaque_ke::{Curve25519, Ristretto255};

use crate::flat::*;
use crate::verif_kani::vk::*;
use crate::verif_kani::{check, cover};

harnesses! {
    /// C11: a Curve25519 public key accepted through serde is never the identity or of small order, and is exactly what
    /// the native decoder accepts (all 2^256 strings)
    fn gs_x25519_pk_serde [unwind = 40] {
        let b = any_bytes::<32>();
        let native_ok = Curve25519::deserialize_pk(&b).is_ok();
        match from_flat::<PublicKey<Curve25519>>(&b) {
            Ok((pk, used)) => {
                check!(used == 32, "32 bytes consumed");
                check!(native_ok, "serde accepts a Curve25519 public key that the native decoder refuses (identity / small order)");
                check!(!crate::g_curve25519::is_small_order(&b), "small-order Curve25519 point accepted through serde");
                check!(eq_bytes(&pk.serialize(), &b), "serde-decoded public key encodes to the input");
                cover!(true, "ok");
            }
            Err(_) => {
                check!(!native_ok, "serde refuses a public key that the native decoder accepts");
                cover!(true, "err");
            }
        }
    }

    /// C11: a Curve25519 private key through serde: Ok <=> the native decoder accepts (clamped, non-zero)
    fn gs_x25519_sk_serde [unwind = 40] {
        let b = any_bytes::<32>();
        let native_ok = Curve25519::deserialize_sk(&b).is_ok();
        match from_flat::<PrivateKey<Curve25519>>(&b) {
            Ok((sk, _)) => {
                check!(native_ok, "serde accepts a Curve25519 private key that the native decoder refuses");
                core::mem::forget(sk);
                cover!(true, "ok");
            }
            Err(_) => {
                check!(!native_ok, "serde refuses a private key that the native decoder accepts");
                cover!(true, "err");
            }
        }
    }

    /// C11: the ristretto255 identity encoding (32 zero bytes; concrete bytes pushed through the engine) is refused by the
    /// trait decoder, by `PublicKey::deserialize` and by the serde path alike; public keys of a wrong length are refused
    #[cfg_attr(kani, kani::stub(subtle::black_box, crate::verif_kani::vk::identity_bb))]
    fn gs_ristretto_pk_identity [unwind = 70] {
        let z = [0u8; 32];
        check!(Ristretto255::deserialize_pk(&z).is_err(), "ristretto255 identity accepted by KeGroup::deserialize_pk");
        check!(PublicKey::<Ristretto255>::deserialize(&z).is_err(), "ristretto255 identity accepted by PublicKey::deserialize");
        check!(from_flat::<PublicKey<Ristretto255>>(&z).is_err(), "ristretto255 identity accepted through serde");
        let buf = any_bytes::<40>();
        let mut len = 0;
        while len <= 40 {
            if len != 32 {
                check!(Ristretto255::deserialize_pk(&buf[..len]).is_err(), "ristretto255 public key of a wrong length accepted");
            }
            len += 1;
        }
        cover!(true, "reached");
    }

    /// C11: zero and non-canonical (>= l) ristretto255 scalars are refused through serde as well (boundary values)
    #[cfg_attr(kani, kani::stub(subtle::black_box, crate::verif_kani::vk::identity_bb))]
    fn gs_ristretto_sk_serde [unwind = 70] {
        let zero = [0u8; 32];
        check!(from_flat::<PrivateKey<Ristretto255>>(&zero).is_err(), "zero ristretto255 private key accepted through serde");
        let l = crate::g_ristretto::L;
        check!(from_flat::<PrivateKey<Ristretto255>>(&l).is_err(), "ristretto255 private key == l accepted through serde");
        let mut one = [0u8; 32];
        one[0] = 1;
        check!(from_flat::<PrivateKey<Ristretto255>>(&one).is_ok(), "ristretto255 private key 1 refused through serde");
        cover!(true, "reached");
    }
}
