"""Registry: which harness discharges which obligation of which property (DESIGN.md §3/§4).

HARNESSES[name] = dict(
    project   'incrate' (compiled inside opaque-ke through the cfg(kani) hooks) | 'ext' (/verif/kani-ext)
    path      harness path (suffix match on Kani's pretty name)
    what      one line: what is asserted
    bounds    the stated bounds
    covers    cover!() messages that must be SATISFIED (vacuity guard)
    loops     [(regex on loop function / loop id, bound)] per-loop unwind bounds (unwinding assertions stay on)
    default_checks  run with CBMC's pointer/bounds checks too (C12 tier)
    timeout, mem_gb
    lemma     True: statement about the reference model only (never counted as coverage of /repo)
)
"""

# loops that get a bound of their own in every harness
DEFAULT_LOOPS = [
    (r"verif_kani::model::mix", 170),       # UF table scan: exact trip count is concrete, cap = UF_CAP + margin
]

COMMON_ASSUMPTIONS = [
    "bounded model checking: every claim is for the stated input sizes and loop bounds only; unwinding assertions are on, so a too-small bound is reported, not silently truncated",
    "model ciphersuite M (harness/common/model.rs): hash = Merkle-Damgard over an uninterpreted 3x64->64 bit compression function (16-byte block, 8-byte digest) through the real digest::CoreWrapper; OPRF group Z_251 (1-byte elements/scalars); KE group Z_241 (2-byte public keys 0x5a||v, 1-byte secret keys); the real generic code of opaque-ke, voprf, hmac, hkdf is what is executed",
    "model groups never hash to the identity / zero scalar (the negligible real-world event is excluded by construction)",
    "zeroize::optimization_barrier (inline asm) is stubbed by a no-op",
    "Kani 0.68 / CBMC 6.11 / CaDiCaL and rustc's MIR are trusted; counterexamples are replayed natively before being reported",
]

HARNESSES = {}
PROPERTIES = {}


def H(name, path, what, bounds="", covers=(), loops=(), project="incrate", **kw):
    d = dict(path=path, what=what, bounds=bounds, covers=list(covers), loops=list(loops), project=project)
    d.update(kw)
    HARNESSES[name] = d


# ---- lemmas about the reference (R3)
H("lemma_hash_eq", "h_lemmas::lemma_hash_eq", "reference hash SH == MHash through digest::CoreWrapper",
  "message lengths 0,1,7,8,15,16,17,24,33, content symbolic", covers=["reached"], lemma=True)
H("lemma_hmac_eq", "h_lemmas::lemma_hmac_eq", "RFC 2104 reference HMAC == hmac crate over MHash",
  "key 8 bytes, messages 0,8,9,24 bytes in two parts", covers=["reached"], lemma=True)
H("lemma_hkdf_eq", "h_lemmas::lemma_hkdf_eq", "RFC 5869 reference Extract/Expand == hkdf crate over MHash",
  "prk 8, info 12 (two parts), 20 output bytes", covers=["reached"], lemma=True)

# ---- S1
H("c03_server_finish_exact", "h_c03::c03_server_finish_exact",
  "ServerLogin::finish is Ok(k) iff mac == HMAC(km3, hashed_transcript), k == session_key, else InvalidLoginError",
  "every 24-byte state x every 8-byte finalization, every compression function", covers=["accept", "reject"])

H("d_strict_credential_finalization", "h_decoders::d_strict_credential_finalization",
  "CredentialFinalization::deserialize accepts exactly the 8-byte strings and re-encodes to the input",
  "all lengths 0..=72", covers=["ok", "err"])

PROPERTIES["C03"] = dict(
    quick=["c03_server_finish_exact", "d_strict_credential_finalization"],
    thorough=["lemma_hmac_eq"],
    assumptions=["C03's 'finalization from another session is rejected' reduces to: the server accepts exactly HMAC(km3, transcript hash) of its own pending state — proved for every state and every byte string; that another session's MAC differs is unforgeability of HMAC (not decided)"],
)
