"""Registry: which harness discharges which obligation of which property (DESIGN.md §3/§4).

HARNESSES[name] = dict(
    project   'incrate' (compiled inside opaque-ke through the cfg(kani) hooks) | 'ext' (/verif/kani-ext)
    path      harness path (suffix match on Kani's pretty name)
    what      one line: what is asserted
    bounds    the stated bounds
    covers    cover!() messages that must be SATISFIED (vacuity guard)
    loops     [(regex on loop function / loop id, bound)] per-loop unwind bounds (unwinding assertions stay on)
    default_checks  run with CBMC's pointer/bounds checks too (C12 tier)
    timeout, mem_gb
    lemma     True: statement about the reference model only (never counted as coverage of /repo)
)
"""

# loops that get a bound of their own in every harness
DEFAULT_LOOPS = [
    (r"verif_kani::model::mix", 260),            # UF table scan (table mode): trip count is concrete, cap = UF_CAP + margin
    (r"verif_kani::vk::any_bytes", 200),         # filling a symbolic buffer (concrete trip count N <= 181)
    # the two stubs keep the name of the function they replace:
    (r"copy_from_slice", 34),                    # <[T]>::copy_from_slice -> vk::elementwise_copy (largest copy in the code under test: 32 bytes)
    (r"block_buffer::BlockBuffer", 18),          # block buffer padding / buffering loops (16-byte block)
    (r"GenericArray.*clone_from_slice", 120),    # GenericArray::clone_from_slice -> vk::ga_clone_from_slice (<= 117 bytes)
    # model hash: blocks per update call (a 117-byte message is 8 blocks); CBMC does not see the concrete block count
    # and would otherwise iterate to the global bound on every call
    (r"UpdateCore>::update_blocks", 10),
]

COMMON_ASSUMPTIONS = [
    "bounded model checking: every claim is for the stated input sizes and loop bounds only; unwinding assertions are on, so a too-small bound is reported, not silently truncated",
    "model ciphersuite M (harness/common/model.rs): hash = Merkle-Damgard over an uninterpreted 3x64->64 bit compression function (16-byte block, 8-byte digest) through the real digest::CoreWrapper; OPRF group Z_251 (1-byte elements/scalars); KE group Z_241 (2-byte public keys 0x5a||v, 1-byte secret keys); the real generic code of opaque-ke, voprf, hmac, hkdf is what is executed",
    "model groups never hash to the identity / zero scalar (the negligible real-world event is excluded by construction)",
    "zeroize::optimization_barrier (inline asm) is stubbed by a no-op; <[u8]>::copy_from_slice is stubbed by an element-wise loop (CBMC 6.11 memcpy defect on generic-array layouts, see DESIGN.md); the engine self-test harness guards the copy patterns used",
    "Kani 0.68 / CBMC 6.11 / CaDiCaL and rustc's MIR are trusted; counterexamples are replayed natively before being reported",
]

HARNESSES = {}
PROPERTIES = {}


def H(name, path, what, bounds="", covers=(), loops=(), project="incrate", **kw):
    d = dict(path=path, what=what, bounds=bounds, covers=list(covers), loops=list(loops), project=project)
    d.update(kw)
    HARNESSES[name] = d


# ---- lemmas about the reference (R3)
H("lemma_hash_eq", "h_lemmas::lemma_hash_eq", "reference hash SH == MHash through digest::CoreWrapper",
  "message lengths 0,1,7,8,15,16,17,24,33, content symbolic", covers=["reached"], lemma=True)
H("lemma_hmac_eq", "h_lemmas::lemma_hmac_eq", "RFC 2104 reference HMAC == hmac crate over MHash",
  "key 8 bytes, messages 0,8,9,24 bytes in two parts", covers=["reached"], lemma=True)
H("lemma_hkdf_eq", "h_lemmas::lemma_hkdf_eq", "RFC 5869 reference Extract/Expand == hkdf crate over MHash",
  "prk 8, info 12 (two parts), 20 output bytes", covers=["reached"], lemma=True)

H("lemma_hkdf_pad42", "h_lemmas::lemma_hkdf_pad42", "RFC 5869 Expand == hkdf crate for the 42-byte credential-response pad",
  "prk 8, info 32+21 bytes, 42 output bytes (6 blocks)", covers=["reached"], lemma=True)

H("engine_selftest_ga_copy", "h_lemmas::engine_selftest_ga_copy", "engine self-test: partial copies into GenericArray<u8,N> land where they should (guards against the CBMC memcpy defect described in DESIGN.md)", "20 (size, offset, length) combinations incl. the two that fail with CBMC's library memcpy", covers=["reached"], lemma=True)

H("lemma_spec_honest_agreement", "h_lemmas::lemma_spec_honest_agreement",
  "R1: the composed RFC 9807 reference steps agree: same randomized password, export key, server public key, MACs accepted, equal session keys",
  "password 2, credential id 2, context 2 bytes, client identity absent, all nonces and keys symbolic; blinds 3 and 5",
  covers=["agreement"], lemma=True, timeout=3600, mem_gb=30, also_depends=["spec_steps.rs"])
H("lemma_spec_honest_agreement_explicit_idu", "h_lemmas::lemma_spec_honest_agreement_explicit_idu", "R1 with an explicit 2-byte client identity", "as R1", covers=["agreement"], lemma=True, timeout=3600, mem_gb=30, also_depends=["spec_steps.rs"])
H("lemma_spec_credentials_roundtrip", "h_lemmas::lemma_spec_credentials_roundtrip", "R1a: reference Store -> mask -> unmask -> Recover returns the registered client key, export key and the setup's public key",
  "default identities; OPRF output, nonces, server key symbolic", covers=["agreement"], lemma=True, timeout=2400, mem_gb=16, also_depends=["spec_steps.rs"])
H("lemma_spec_ke_agreement", "h_lemmas::lemma_spec_ke_agreement", "R1b: reference 3DH: consistent key pairs + same transcript hash => same session key and MAC keys on both sides",
  "all four private keys and the transcript hash symbolic", covers=["agreement"], lemma=True, timeout=2400, mem_gb=16)
H("lemma_spec_prefix_injective", "h_lemmas::lemma_spec_prefix_injective",
  "R2: the 2-byte-length-prefixed encoding of (context, id_u, id_s) is injective", "all splits of 6 symbolic bytes", covers=["different splits"], lemma=True)

H("lemma_stub_clone_from_slice", "h_lemmas::lemma_stub_clone_from_slice",
  "the element-wise stub of GenericArray::clone_from_slice equals the original (which is not stubbed in this harness)",
  "sizes 1, 2, 8, 32, 34, 40, 42, symbolic contents", covers=["reached"], lemma=True)

# ---- S1
H("c03_server_finish_exact", "h_c03::c03_server_finish_exact",
  "ServerLogin::finish is Ok(k) iff mac == HMAC(km3, hashed_transcript), k == session_key, else InvalidLoginError",
  "every 24-byte state x every 8-byte finalization, every compression function", covers=["accept", "reject"])

# ---- D: decoders (suite M)
DECODERS = {
    "reg_req": ("RegistrationRequest", 1), "reg_resp": ("RegistrationResponse", 3), "reg_upload": ("RegistrationUpload", 50),
    "server_registration": ("ServerRegistration", 50), "cred_req": ("CredentialRequest", 35),
    "cred_resp": ("CredentialResponse", 117), "cred_fin": ("CredentialFinalization", 8), "setup": ("ServerSetup", 10),
    "setup_xk": ("ServerSetup<_, external key>", 11), "client_reg": ("ClientRegistration", 2),
    "client_login": ("ClientLogin", 69), "server_login": ("ServerLogin", 24),
}
D_QUICK = []
for k, (ty, l) in DECODERS.items():
    H("d_" + k, "h_decoders::d_" + k,
      "%s::deserialize(input) is Ok <=> len == %d and every element/scalar/key field valid; then serialize == input" % (ty, l),
      "lengths 0, L-1, L, L+1 (concrete), all contents symbolic", covers=["ok", "err"])
    D_QUICK.append("d_" + k)
D_ALL = []
for n in ["reg_req", "reg_resp", "cred_fin", "setup", "setup_xk", "client_reg", "server_login"]:
    H("d_all_" + n, "h_decoders::d_all_" + n, "same statement, every length of the range",
      "every length 0..=L+64, all contents symbolic", covers=["err"], timeout=2400)
    D_ALL.append("d_all_" + n)
for n in ["reg_upload", "cred_req", "cred_resp", "client_login"]:
    H("d_win_" + n, "h_decoders::d_win_" + n, "same statement on a window of lengths around L",
      "lengths 0, 1, 2, L-8..=L+8, L+32, L+64 (a sweep over every length exhausted memory in symbolic execution), all contents symbolic",
      covers=["ok", "err"], timeout=2400, mem_gb=16)
    D_ALL.append("d_win_" + n)

# ---- D-serde: the serde paths (harness-defined byte-verbatim format `flat`, harness/common/flatserde.rs)
SERDE_TYPES = {
    "reg_req": ("RegistrationRequest", 1), "reg_resp": ("RegistrationResponse", 3), "reg_upload": ("RegistrationUpload", 54),
    "server_registration": ("ServerRegistration", 54), "cred_req": ("CredentialRequest", 35), "cred_resp": ("CredentialResponse", 117),
    "cred_fin": ("CredentialFinalization", 8), "setup": ("ServerSetup", 14), "client_reg": ("ClientRegistration", 2),
    "client_login": ("ClientLogin", 69), "server_login": ("ServerLogin", 24),
}
DS_ALL, DR_ALL = [], []
for k, (ty, l) in SERDE_TYPES.items():
    H("ds_" + k, "h_serde::ds_" + k,
      "serde Deserialize of %s (real derive / keypair.rs / voprf impls driven by the byte-verbatim format): accepted => exactly %d bytes consumed, the value's native encoding is accepted and rebuilt identically by the native decoder (no invalid element / scalar / key bypasses validation), serde re-encoding == input; one byte short is refused" % (ty, l),
      "every byte string of the serde length %d and of length %d" % (l, l - 1), covers=["serde ok", "serde err"] if k not in ("cred_fin", "server_login") else ["serde ok"],
      timeout=1500, mem_gb=12)
    H("dr_" + k, "h_serde::dr_" + k,
      "%s: every natively decodable value saved through serde and reloaded has the same native encoding and the same serde bytes; everything written is consumed" % ty,
      "every natively decodable value (all native-length byte strings through the native decoder)", covers=["reloaded"], timeout=1500, mem_gb=12)
    DS_ALL.append("ds_" + k)
    DR_ALL.append("dr_" + k)
DS_SHORT = []
for k in ("setup", "client_reg", "server_login", "reg_resp"):
    H("ds_short_" + k, "h_serde::ds_short_" + k,
      "%s through a serde format whose sequences may end early (as a self-describing format does for a record lacking trailing fields): every proper prefix of an encoding is refused - no field (e.g. the fake key pair) is completed with a default" % SERDE_TYPES[k][0],
      "every byte string of the serde length, cut at every position 0..L-1", covers=["complete ok"], timeout=1500, mem_gb=12,
      loops=[(r"derive_auth_keypair", 2), (r"derive_key", 2)])
    DS_SHORT.append("ds_short_" + k)
H("ds_keys", "h_serde::ds_keys",
  "PublicKey / PrivateKey serde Deserialize (keypair.rs): Ok <=> valid canonical non-identity key / non-zero in-range scalar, agrees with the native decoder, re-encodes to the input",
  "every 2-byte public key string and every 1-byte private key string of the model KE group", covers=["pk ok", "pk err", "sk ok", "sk err"])

# ---- S6 / S7 (private units of opaque.rs)
H("s6_pwd_key_len3", "verif_kani_opaque::s6_pwd_key_len3",
  "get_password_derived_key: KSF called exactly once on Finalize(pw, blind, evaluation), with the passed instance or the default; result == Extract(\"\", out || Stretch(out)); KSF failure => Err",
  "password 3 symbolic bytes; every blind, evaluation element, KSF output, KSF instance tag, fail flag", covers=["ok", "ksf error"])
H("s6_pwd_key_len0", "verif_kani_opaque::s6_pwd_key_len0", "same, empty password", "empty password", covers=["ok", "ksf error"])
H("s6_pwd_key_len17", "verif_kani_opaque::s6_pwd_key_len17", "same, 17-byte password (longer than the hash output and than a hash block)", "password 17 symbolic bytes", covers=["ok", "ksf error"])
H("s6_default_explicit_eq_none", "verif_kani_opaque::s6_default_explicit_eq_none",
  "passing Some(&Ksf::default()) gives the same randomized password as passing None", "password 2 bytes", covers=["ok"])
H("s6_pwd_too_long", "verif_kani_opaque::s6_pwd_too_long",
  "a 65536-byte password is refused with an error before any stretching", "length 65536 (content zero: only the length matters)", covers=["reached"])
H("s7_oprf_key_from_seed", "verif_kani_opaque::s7_oprf_key_from_seed",
  "oprf_key_from_seed == DeriveKeyPair(Expand(seed, cred_id || 'OprfKey', Nok), 'OPAQUE-DeriveKeyPair')",
  "seed 8 bytes, credential identifier 0..=2 bytes, all symbolic",
  covers=["reached"], loops=[(r"derive_key", 2)])

H("s7_oprf_key_from_seed_long_cred", "verif_kani_opaque::s7_oprf_key_from_seed_long_cred",
  "same with credential identifiers of 9 and 20 bytes (longer than the hash output and than a hash block): no truncation",
  "seed 8 bytes, credential identifier 9 / 20 symbolic bytes", covers=["reached"], loops=[(r"derive_key", 2)])

H("s14_derive_auth_keypair_loop", "h_derive::s14_derive_auth_keypair_loop",
  "generic KeGroup::derive_auth_keypair: retries with counters 0..255 until a non-zero scalar, passes seed||I2OSP(33,2)||info||counter and DST 'DeriveKeyPair'||'OPRFV1-'||0||'-'||ID, errors after 256 attempts",
  "scripted group returning zero for the first k in {0, 1, 2, 256} attempts; seed symbolic", covers=["first attempt", "third attempt", "gives up"])

# ---- S12
H("s12_i2osp_all_usize", "h_inputs::s12_i2osp_all_usize", "I2OSP(n,1)/I2OSP(n,2): Ok <=> n fits, big-endian value", "every usize n",
  covers=["255 fits", "256 refused", "65535 fits", "65536 refused"])
H("s12_input_from_all_lengths", "h_inputs::s12_input_from_all_lengths",
  "Input::from(x): Ok <=> len fits the prefix; emits prefix || x verbatim (no truncation / wrap)", "every length 0..=131073",
  covers=["65535", "empty", "65536 refused", "255", "256 refused"])
H("s12_input_from_label", "h_inputs::s12_input_from_label", "Expand-Label label encoding: 1-byte length of 'OPAQUE-'||label, parts verbatim",
  "label lengths 0..=300", covers=["longest label", "249 refused"])
H("s12_identifiers_defaulting", "h_inputs::s12_identifiers_defaulting",
  "bytestrings_from_identifiers: absent identity == own public key, explicit verbatim, never swapped, > 65535 refused",
  "both identities absent/present with every length 0..=70000; public keys symbolic",
  covers=["explicit client, default server", "default client, 65535-byte server", "refused"])

# ---- S2-S5, S13
KEYLOOPS = [(r"derive_auth_keypair", 2), (r"derive_key", 2)]
for pw in ("pw0", "pw2"):
    H("s2_client_reg_start_" + pw, "h_steps::s2_client_reg_start_" + pw,
      "ClientRegistration::start: request == blind*HashToGroup(pw); blind = the tape byte drawn (production blind()); state remembers the request; same tape => same output",
      "password %s bytes; tape fully symbolic (first byte a valid scalar)" % pw[2:], covers=["reached"])
    H("s3_client_login_start_" + pw, "h_steps::s3_client_login_start_" + pw,
      "ClientLogin::start: request per RFC 9497 Blind; ephemeral key = DeriveDiffieHellmanKeyPair(own tape segment); nonce = own 32 tape bytes; state == what was sent; exactly 34 bytes drawn",
      "password %s bytes; tape fully symbolic" % pw[2:], covers=["reached"], loops=KEYLOOPS)
H("s2_client_reg_start_pw17", "h_steps::s2_client_reg_start_pw17", "ClientRegistration::start with a 17-byte password: request == blind*HashToGroup(pw) over all 17 bytes", "password 17 symbolic bytes", covers=["reached"])
for c in ("cred0", "cred2"):
    H("s4_server_reg_start_" + c, "h_steps::s4_server_reg_start_" + c,
      "ServerRegistration::start: evaluation == DeriveKeyPair(Expand(seed, cred||'OprfKey'))*request, server_s_pk == public key of the setup's key",
      "setup = every decodable 10-byte string, every valid request, credential id %s bytes" % c[4:], covers=["reached"], loops=KEYLOOPS)
H("s4_server_reg_start_external_key", "h_steps::s4_server_reg_start_external_key",
  "with an externally held key: same response, no fallible key call in start, key never serialized, failing key => its own error",
  "every key, failure at call 0(never)/1/2, every request, 1-byte credential id", covers=["reached", "external key failure"], loops=KEYLOOPS)
H("s5_server_setup_new", "h_steps::s5_server_setup_new",
  "ServerSetup::new: static key, OPRF seed, fake key from disjoint tape segments (10 bytes in all); round trip through serialize/deserialize",
  "tape fully symbolic", covers=["reached"], loops=KEYLOOPS)
H("s13_dummy_record", "h_steps::s13_dummy_record",
  "fake record for unregistered users: fresh 8-byte masking key from the RNG, all-zero envelope, setup's fake public key",
  "every decodable setup, tape symbolic", covers=["reached"])

# ---- S8 / S9 units
SLICE_LOOPS = [(r"chain_iter|update_iter", 8), (r"Chain<|Flatten|FlattenCompat", 8)]
H("s8_mask_response", "verif_kani_opaque::s8_mask_response", "mask_response == Expand(masking_key, nonce||'CredentialResponsePad', 42) XOR (server_pk || envelope)",
  "every masking key, nonce, valid public key, envelope", covers=["reached"], loops=SLICE_LOOPS, timeout=1800)
H("s8_unmask_response", "verif_kani_opaque::s8_unmask_response", "unmask_response: Ok <=> unmasked public key valid; outputs are the unmasked bytes",
  "every masking key, nonce, 42-byte masked response", covers=["ok", "rejected"], loops=SLICE_LOOPS, timeout=2400, mem_gb=16)
for n, d in (("default_ids", "both identities absent"), ("explicit_ids", "client id 2 bytes, server id 1 byte"), ("mixed_ids", "one absent, one empty")):
    H("s9_seal_" + n, "verif_kani_envelope::s9_seal_" + n,
      "Envelope::seal == RFC 9807 Store: nonce from RNG, client key = DeriveDHKeyPair(Expand(rpwd, nonce||'PrivateKey')), export key, auth_tag over nonce||server_pk||len||id_s||len||id_u",
      d + "; randomized_pwd, server key, identities, tape symbolic", covers=["reached"], loops=SLICE_LOOPS + KEYLOOPS, timeout=3000, mem_gb=18)
    H("s9_open_" + n, "verif_kani_envelope::s9_open_" + n,
      "Envelope::open: Ok <=> tag == MAC(...) ; recovers the same client key pair and export key; hands on effective identities; else SealOpenHmacError",
      d + "; randomized_pwd, server key, identities, 40-byte envelope symbolic", covers=["opened", "rejected"], loops=SLICE_LOOPS + KEYLOOPS, timeout=3000, mem_gb=18)

H("s9_open_raw_exact", "verif_kani_envelope::s9_open_raw_exact", "Envelope::open_raw: Ok <=> tag == MAC(auth_key, nonce||aad); export key formula; else SealOpenHmacError",
  "every randomized_pwd, 40-byte envelope, 5 bytes of associated data in two parts", covers=["opened", "rejected"], loops=SLICE_LOOPS, timeout=1800, mem_gb=12)
H("s9_seal_raw", "verif_kani_envelope::s9_seal_raw", "Envelope::seal_raw: auth_tag and export key formulas", "every randomized_pwd, nonce, associated data",
  covers=["reached"], loops=SLICE_LOOPS, timeout=1800, mem_gb=12)
H("s9_construct_aad_order", "verif_kani_envelope::s9_construct_aad_order", "construct_aad yields server_pk, id_s, id_u in this order", "symbolic parts", covers=["reached"], loops=SLICE_LOOPS)

H("s9_keys_internal", "verif_kani_envelope::s9_keys_internal", "build_inner_envelope_internal / recover_keys_internal: client key pair = DeriveDiffieHellmanKeyPair(Expand(rpwd, nonce||'PrivateKey'))",
  "every randomized_pwd and nonce", covers=["reached"], loops=KEYLOOPS, timeout=1800, mem_gb=12)
ENVDEP = dict(also_depends=["w_stubs.rs"])
for n, d in (("default_ids", "identities absent"), ("explicit_ids", "client 2 bytes, server 1 byte"), ("server_only", "only an (empty) server identity"), ("client_only", "only a 1-byte client identity"), ("long_ids", "client 20 bytes, server 9 bytes")):
    H("s9w_seal_" + n, "verif_kani_envelope::s9w_seal_" + n,
      "Envelope::seal == RFC 9807 Store (helpers stubbed by their proved references): nonce = 32 fresh RNG bytes, identity defaulting, tag over nonce||server_pk||len||id_s||len||id_u, client key, export key",
      d + "; randomized_pwd, server key, identities, tape symbolic", covers=["reached"], loops=SLICE_LOOPS + KEYLOOPS + [(r"drain_aad", 60)], timeout=1800, mem_gb=12, **ENVDEP)
for n, d in (("default_ids", "identities absent"), ("explicit_ids", "client 2 bytes, server 1 byte"), ("client_empty", "explicit empty client identity"), ("server_only", "only a 2-byte server identity"), ("long_ids", "client 20 bytes, server 9 bytes")):
    H("s9w_open_" + n, "verif_kani_envelope::s9w_open_" + n,
      "Envelope::open == RFC 9807 Recover (helpers stubbed): Ok <=> tag over nonce||server_pk||identities matches; recovered key pair, export key, effective identities handed on; else SealOpenHmacError",
      d + "; randomized_pwd, server key, identities, 40-byte envelope symbolic", covers=["opened", "rejected"], loops=SLICE_LOOPS + KEYLOOPS + [(r"drain_aad", 60)], timeout=1800, mem_gb=12, **ENVDEP)

# ---- S10 / S11 (tripledh.rs)
H("s11_derive_3dh_keys", "verif_kani_tripledh::s11_derive_3dh_keys",
  "derive_3dh_keys == RFC 9807 DeriveKeys: Extract(dh1||dh2||dh3), Expand-Label HandshakeSecret/SessionKey with Hash(preamble), ServerMAC/ClientMAC",
  "every three key pairs and transcript hash", covers=["reached"], timeout=3000, mem_gb=24)
H("s11_derive_3dh_keys_external", "verif_kani_tripledh::s11_derive_3dh_keys_external",
  "same through the external-key interface: exactly one diffie_hellman call, failure => the key's own Custom error",
  "failure at call 0(never)/1/2", covers=["ok", "external key failure"], timeout=3000, mem_gb=24)
for n, d in (("ctx0_default_ids", "empty context, default identities"), ("ctx2_explicit_idu", "2-byte context, explicit 1-byte client identity")):
    H("s10_generate_ke2_" + n, "verif_kani_tripledh::s10_generate_ke2_" + n,
      "TripleDh::generate_ke2 == RFC 9807 AuthServerRespond: fresh nonce/ephemeral key from the RNG, preamble over context, identities, request, response, nonce, key share; server MAC; pending state (Km3, Hash(preamble||mac), session key)",
      d + "; request, response, keys, tape symbolic", covers=["reached"], loops=SLICE_LOOPS + KEYLOOPS, timeout=3600, mem_gb=22)
    H("s10_generate_ke3_" + n, "verif_kani_tripledh::s10_generate_ke3_" + n,
      "TripleDh::generate_ke3 == RFC 9807 AuthClientFinalize: Ok <=> received MAC == MAC(Km2, Hash(preamble)); session key; client MAC over Hash(preamble||server_mac); else InvalidLoginError",
      d + "; request, response, KE2 message, client state, keys symbolic", covers=["accept", "reject"], loops=SLICE_LOOPS + KEYLOOPS, timeout=3600, mem_gb=22)
for n, d in (("ctx0_default_ids", "empty context, default identities"), ("ctx2_explicit_idu", "2-byte context, explicit 1-byte client identity")):
    H("s10w_generate_ke2_" + n, "verif_kani_tripledh::s10w_generate_ke2_" + n,
      "TripleDh::generate_ke2 with derive_3dh_keys replaced by its reference (S11): fresh nonce/ephemeral key, preamble over context, identities, request, response, nonce, key share; server MAC; pending state",
      d + "; request, response, keys, tape symbolic", covers=["reached"], loops=SLICE_LOOPS + KEYLOOPS, timeout=3000, mem_gb=16)
    H("s10w_generate_ke3_" + n, "verif_kani_tripledh::s10w_generate_ke3_" + n,
      "TripleDh::generate_ke3 with derive_3dh_keys replaced by its reference (S11): Ok <=> received MAC == MAC(Km2, Hash(preamble)); session key; client MAC over Hash(preamble||server_mac); else InvalidLoginError",
      d + "; request, response, KE2 message, client state, keys symbolic", covers=["accept", "reject"], loops=SLICE_LOOPS + KEYLOOPS, timeout=5400, mem_gb=50)
for n, d in (("ctx0_default_ids", "empty context, default identities"), ("ctx2_explicit_idu", "2-byte context, explicit 1-byte client identity")):
    H("s10p_generate_ke2_" + n, "verif_kani_tripledh::s10p_generate_ke2_" + n,
      "TripleDh::generate_ke2 (derive_3dh_keys stubbed by its reference S11; iterator arguments monomorphised as single slices): fresh nonce/ephemeral key, preamble over context, identities, request, response, nonce, key share; server MAC; pending state",
      d + "; request, response, keys, tape symbolic", covers=["reached"], loops=SLICE_LOOPS + KEYLOOPS, timeout=2700, mem_gb=44, stretch=True)
    H("s10p_generate_ke3_" + n, "verif_kani_tripledh::s10p_generate_ke3_" + n,
      "TripleDh::generate_ke3 (derive_3dh_keys stubbed by its reference S11; iterator arguments monomorphised as single slices): Ok <=> received MAC == MAC(Km2, Hash(preamble)); session key; client MAC over Hash(preamble||server_mac); else InvalidLoginError",
      d + "; request, response, KE2 message, client state, keys symbolic", covers=["accept", "reject"], loops=SLICE_LOOPS + KEYLOOPS, timeout=2700, mem_gb=40, stretch=True)
H("s10q_generate_ke3_small", "verif_kani_tripledh::s10q_generate_ke3_small",
  "TripleDh::generate_ke3 with one-byte transcript parts (derive_3dh_keys stubbed by its reference): order of context, id_u, request, id_s, response, server nonce and key share in the transcript; which keys enter the three DHs; Ok <=> MAC exact; client MAC over transcript||received MAC; else InvalidLoginError",
  "context 1 byte, four 1-byte parts, KE2 message, client state, keys symbolic", covers=["accept", "reject"], loops=SLICE_LOOPS + KEYLOOPS, timeout=2400, mem_gb=34, stretch=True)
H("s10q_generate_ke2_small", "verif_kani_tripledh::s10q_generate_ke2_small",
  "TripleDh::generate_ke2 with one-byte transcript parts (derive_3dh_keys stubbed): fresh nonce / ephemeral key, transcript order, server MAC, pending state",
  "context 1 byte, four 1-byte parts, KE1 message, keys, tape symbolic", covers=["reached"], loops=SLICE_LOOPS + KEYLOOPS, timeout=2400, mem_gb=34, stretch=True)
H("s10m_generate_ke3_mac_exact", "verif_kani_tripledh::s10m_generate_ke3_mac_exact",
  "TripleDh::generate_ke3, fixed transcript and keys, every received MAC: Ok <=> MAC == MAC(Km2, Hash(preamble)); outputs per RFC; else InvalidLoginError (derive_3dh_keys stubbed by its reference)",
  "one concrete transcript (context 1 byte, four 1-byte parts, concrete nonce and keys); the 8-byte MAC and the hash function symbolic", covers=["accept", "reject"], loops=SLICE_LOOPS + KEYLOOPS, timeout=1200, mem_gb=14)
H("s10_expand_label_limits", "verif_kani_tripledh::s10_expand_label_limits", "hkdf_expand_label == RFC Expand-Label; 256-byte context refused",
  "context 8 symbolic bytes / 256 bytes", covers=["ok", "256 refused"], timeout=1800, mem_gb=18)

# ---- G: concrete groups (external crate /verif/kani-ext, public API, real arithmetic at byte level)
def G(name, mod, what, bounds, covers, **kw):
    H(name, mod + "::" + name, what, bounds, covers=covers, project="ext", **kw)
G("g1_x25519_sk_decode", "g_curve25519", "Curve25519 deserialize_sk: Ok <=> RFC 7748-clamped; re-encodes to the input", "all 2^256 32-byte strings", ["ok", "err"])
G("g1_x25519_sk_lengths", "g_curve25519", "Curve25519 private keys of length != 32 refused", "lengths 0..=64", ["reached"])
G("g3_x25519_derive", "g_curve25519", "Curve25519 derive_auth_keypair(seed) == clamp(seed), valid, non-zero", "all 2^256 seeds", ["reached"])
G("g2_x25519_pk_roundtrip", "g_curve25519", "Curve25519 deserialize_pk: length 32 only; accepted keys re-encode to the input", "lengths 0..=64, all contents", ["ok"])
G("g2_x25519_pk_small_order", "g_curve25519", "Curve25519 deserialize_pk never accepts a small-order u-coordinate (0, 1, p-1, the two order-8 values; mod p, bit 255 ignored)", "all 2^256 strings", ["ok", "err"])
G("g2_x25519_pk_no_alias", "g_curve25519", "two different accepted Curve25519 public-key encodings never compare equal", "all pairs of 32-byte strings", ["both decode"], known_finding="F3-x25519-noncanonical")
G("g2_x25519_pk_no_alias_canonical", "g_curve25519", "same, restricted to canonical encodings (u < p, bit 255 clear)", "all pairs of canonical strings", ["both decode"])
G("g4_ristretto_sk_decode", "g_ristretto", "ristretto255 deserialize_sk: accepted scalars re-encode to the input; bit 255 set is refused", "all 2^256 strings", ["ok", "err"], timeout=1200)
G("g4_ristretto_sk_boundaries", "g_ristretto", "ristretto255 deserialize_sk on the boundary values 0, 1, l-1, l, l+1, 2^252-1, 2^252, 2^253", "8 concrete byte strings through the engine (full range statement outside reach: Montgomery reduction)", ["reached"], timeout=1800, mem_gb=16)
G("g4_ristretto_lengths_identity", "g_ristretto", "ristretto255 keys of length != 32 refused; identity public key refused", "lengths 0..=64", ["reached"])
G("g5_p256_sk_decode", "g_nist", "P-256 deserialize_sk: Ok <=> 0 < v < n; re-encodes to the input", "all 2^256 strings", ["ok", "err"], timeout=1800, mem_gb=16)
G("gs_x25519_pk_serde", "g_serde", "PublicKey<Curve25519> through serde: Ok <=> the native decoder accepts; never identity / small order; re-encodes to the input", "all 2^256 strings", ["ok", "err"])
G("gs_x25519_sk_serde", "g_serde", "PrivateKey<Curve25519> through serde: Ok <=> the native decoder accepts (clamped, non-zero)", "all 2^256 strings", ["ok", "err"])
G("gs_ristretto_pk_identity", "g_serde", "ristretto255 identity encoding refused by KeGroup::deserialize_pk, PublicKey::deserialize and the serde path; wrong-length public keys refused", "32 zero bytes (concrete, through the engine); lengths 0..=40 except 32 symbolic", ["reached"], timeout=2400, mem_gb=24, stretch=True, loops=[(r"pow2k|sqn|pow|invert", 300)])
G("gs_ristretto_sk_serde", "g_serde", "ristretto255 private keys 0 and l refused through serde, 1 accepted", "3 concrete strings through the engine", ["reached"], timeout=1800, mem_gb=16)
G("g6_p256_oprf_elem_compact_tag", "g_nist", "RegistrationRequest<P-256>: an OPRF element with SEC1 compact tag 0x05 must not decode to a message that re-encodes differently", "generator x-coordinate with tag 5 (concrete, through the engine)", ["reached"], known_finding="F4-nist-oprf-element-compact-tag", timeout=2400, mem_gb=24, stretch=True, loops=[(r"sqn|pow|invert", 300)])
G("g6_p256_oprf_elem_other_tags", "g_nist", "RegistrationRequest<P-256>: OPRF element tags 0 / 4 refused, 2 / 3 accepted and canonical", "generator x-coordinate with tags 0,2,3,4 (concrete)", ["ok", "err"], timeout=2400, mem_gb=24, stretch=True, loops=[(r"sqn|pow|invert", 300)])
G("g5_p256_sk_lengths", "g_nist", "P-256 deserialize_sk refuses every length other than 32 (no zero-padded short keys: a decoded key re-encodes to its input)", "every length 0..=40 except 32; content 0x01.. with a symbolic last byte", ["reached"], timeout=1800, mem_gb=16)
G("g5_p384_sk_lengths", "g_nist", "P-384 deserialize_sk refuses every length other than 48", "every length 0..=56 except 48; content 0x01.. with a symbolic last byte", ["reached"], timeout=1800, mem_gb=16)
G("g6_p256_pk_unknown_tags", "g_nist", "P-256 deserialize_pk refuses every SEC1 tag outside {0,2,3,4,5}", "33-byte strings, tag and x symbolic", ["reached"], timeout=1800, mem_gb=16)
G("g6_p256_pk_bad_tags", "g_nist", "P-256 deserialize_pk refuses tags 0, 4, 5 on a 33-byte string with a valid x", "3 tags x the generator's x", ["reached"], timeout=1800, mem_gb=16, loops=[(r"sqn|pow|invert", 300)])
G("g6_p256_pk_tag_cases", "g_nist", "P-256 deserialize_pk with tags 0/2/3/4/5 and the generator's x: accepted => re-encodes to the input; tags 0, 4, 5 refused", "5 tags x concrete valid x", ["ok", "err"], timeout=2400, mem_gb=24, loops=[(r"sqn|pow|invert", 300)])

# ---- W: wiring harnesses (real step functions; private units replaced by reference stubs proved equal in S6-S9; recording key exchange)
WDEP = dict(also_depends=["w_stubs.rs", "spec_steps.rs"])
DRAIN = [(r"w_stubs::drain", 100)]
for n, d in (("default_ids", "identities absent"), ("explicit_ids", "client id 2 bytes, server id 1 byte"), ("mixed_ids", "client absent, server empty")):
    H("w1_client_reg_finish_" + n, "h_wire::w1_client_reg_finish_" + n,
      "ClientRegistration::finish == RFC 9807 FinalizeRegistrationRequest: reflected value refused first; KSF instance forwarded; record = client_pk||masking_key||envelope; export key; server_s_pk of the response; only the envelope nonce is drawn",
      d + "; state, response, password(2), KSF behaviour, tape symbolic", covers=["ok", "reflected", "ksf failure"], loops=DRAIN + KEYLOOPS, timeout=1800, mem_gb=10, **WDEP)
for n, d in (("default_ids", "identities and context absent"), ("explicit_ids_ctx", "client id 2, server id 1, context 2 bytes"), ("mixed_ids", "client empty, server absent, context 2 bytes")):
    H("w3_client_login_finish_" + n, "h_wire::w3_client_login_finish_" + n,
      "ClientLogin::finish == RFC 9807 RecoverCredentials + AuthClientFinalize wiring: reflected value refused; KSF forwarded; unmask/envelope failure => InvalidLoginError and no key exchange; 3DH gets request, response head, KE2, own state, unmasked server key, recovered client key, effective identities, context; outputs = KE outputs + recovered export key + unmasked server key",
      d + "; 69-byte state, 117-byte response, password(2), KSF behaviour, KE outcome symbolic", covers=["ok", "reflected", "ksf failure", "invalid login", "mac rejected"], loops=DRAIN + KEYLOOPS, timeout=2400, mem_gb=20, **WDEP)
for n, what in (("w3a_login_finish_decision", "decision part: reflected value refused; KSF instance forwarded and used once; Ok only if credential recovery succeeds and the key exchange accepts; unmask/envelope failure and rejected MAC => InvalidLoginError, no key exchange on unrecoverable credentials"),
                ("w3b_login_finish_outputs", "output part: export key == recovered one, server public key == unmasked one, session key and finalization == the key exchange's outputs"),
                ("w3c_login_finish_ke_args", "key-exchange argument part: own request, response head, KE2, own state, unmasked server key, recovered client key, effective identities, context")):
    H(n, "h_wire::" + n, "ClientLogin::finish wiring (one of three parallel harnesses over the same run) — " + what,
      "identities/context absent (a, b) or explicit (c); 69-byte state, 117-byte response, password(2), KSF behaviour, KE outcome symbolic",
      covers=(["reflected", "ksf failure", "invalid login", "mac rejected"] if n.startswith("w3a") else ["ok"]), loops=DRAIN + KEYLOOPS, timeout=1500, mem_gb=20, **WDEP)
W3Q = ["w3a_login_finish_decision", "w3b_login_finish_outputs", "w3c_login_finish_ke_args"]
H("w3e_login_finish_early", "h_wire::w3e_login_finish_early",
  "ClientLogin::finish, the exits before any unmasking: reflected value => ReflectedValueError and nothing computed; failing KSF => Err, evaluated once on Finalize(pw given to finish, blind, evaluation), with the caller's instance or the default; no key exchange",
  "69-byte state, 117-byte response, password(2), KSF instance present/absent with symbolic tag", covers=["reflected", "explicit instance", "default instance"], loops=DRAIN + KEYLOOPS, timeout=1200, mem_gb=12, **WDEP)
for n, d in (("record", "registered user, no ids/context, credential id 2 bytes"), ("record_ids_ctx", "registered user, explicit ids and context, empty credential id"),
             ("unregistered", "no password file, credential id 2 bytes"), ("unregistered_ids_ctx", "no password file, server id empty, context")):
    H("w2_server_login_start_" + n, "h_wire::w2_server_login_start_" + n,
      "ServerLogin::start == RFC 9807 CreateCredentialResponse + AuthServerRespond wiring: evaluation under the per-credential key; fresh masking nonce (and fake masking key) from the RNG; masked = pad XOR (setup public key || record envelope); fake record for None; 3DH gets request, response head, client key (fake key for None), the setup's static key, effective identities, context",
      d + "; setup, record, request, KE results, tape symbolic", covers=["ok", "key exchange failure"], loops=DRAIN + KEYLOOPS, timeout=2400, mem_gb=20, **WDEP)
for n in ("external_key", "external_key_unregistered"):
    H("w2_server_login_start_" + n, "h_wire::w2_server_login_start_" + n,
      "ServerLogin::start with an externally held static key: same response/state; exactly one public_key and one diffie_hellman call; key never serialized; failure at either call => the key's own Custom error, no response",
      "failure at call 0(never)/1/2/3", covers=["ok", "public_key failure", "diffie_hellman failure"], loops=DRAIN + KEYLOOPS, timeout=2400, mem_gb=20, **WDEP)

# ---- C12 tier: the same harnesses with CBMC's pointer / bounds / division checks on (Rust's own panic checks are
# always on): no reachable panic, unwrap on None/Err, unreachable!, overflow, out-of-bounds, invalid pointer
C12_SET = ["d_reg_req", "d_reg_resp", "d_client_reg", "d_cred_fin", "d_setup", "d_setup_xk", "d_server_login", "d_cred_req",
           "c03_server_finish_exact", "s12_i2osp_all_usize", "s12_input_from_all_lengths", "s12_input_from_label",
           "s12_identifiers_defaulting", "s13_dummy_record", "s2_client_reg_start_pw2", "s6_pwd_too_long", "s4_server_reg_start_cred2",
           "ds_keys", "ds_reg_resp", "ds_client_reg", "ds_setup"]
C12_T = ["d_reg_upload", "d_cred_resp", "d_client_login", "d_all_reg_req", "d_all_reg_resp", "d_all_cred_fin", "d_all_setup", "d_all_client_reg",
         "d_all_server_login", "s3_client_login_start_pw2", "s5_server_setup_new", "g1_x25519_sk_decode", "g2_x25519_pk_roundtrip", "g5_p256_sk_decode",
         "ds_server_login", "ds_cred_req", "dr_setup"]
for n in C12_SET + C12_T:
    d = dict(HARNESSES[n])
    d["default_checks"] = True
    d["what"] = "[all CBMC memory-safety checks on] " + d["what"]
    HARNESSES["c12_" + n] = d

W1 = ["w1_client_reg_finish_default_ids", "w1_client_reg_finish_explicit_ids", "w1_client_reg_finish_mixed_ids"]
W2 = ["w2_server_login_start_record", "w2_server_login_start_record_ids_ctx", "w2_server_login_start_unregistered", "w2_server_login_start_unregistered_ids_ctx"]
W2X = ["w2_server_login_start_external_key", "w2_server_login_start_external_key_unregistered"]
W3 = ["w3_client_login_finish_default_ids", "w3_client_login_finish_explicit_ids_ctx", "w3_client_login_finish_mixed_ids"]
S9WL = ["s9w_seal_long_ids", "s9w_open_long_ids"]
S9W = ["s9w_seal_default_ids", "s9w_seal_explicit_ids", "s9w_seal_server_only", "s9w_seal_client_only",
       "s9w_open_default_ids", "s9w_open_explicit_ids", "s9w_open_client_empty", "s9w_open_server_only"]
S9U = ["s9_open_raw_exact", "s9_seal_raw", "s9_construct_aad_order", "s9_keys_internal"]
S10 = ["s10p_generate_ke2_ctx0_default_ids", "s10p_generate_ke3_ctx0_default_ids"]
S6 = ["s6_pwd_key_len3", "s6_pwd_key_len0", "s6_default_explicit_eq_none", "s6_pwd_too_long"]
S6L = ["s6_pwd_key_len17", "s2_client_reg_start_pw17"]
S12 = ["s12_i2osp_all_usize", "s12_input_from_all_lengths", "s12_input_from_label", "s12_identifiers_defaulting"]
LEMMAS = ["lemma_hash_eq", "lemma_hmac_eq", "lemma_hkdf_eq", "lemma_hkdf_pad42", "lemma_stub_clone_from_slice", "engine_selftest_ga_copy"]
SELF = ["engine_selftest_ga_copy"]
CRYPTO_NOTE = "the 'mismatch => reject / different => unrelated' halves of this property are computational (collision resistance, MAC unforgeability) and are not decided: what is decided is that the implementation takes exactly the RFC's decision and feeds exactly the RFC's bytes into every hash, for every input within the bounds"

H("s12_mac_update_iter_long", "h_inputs::s12_mac_update_iter_long", "MacExt::update_iter == HMAC over the concatenation of all parts (incl. a 130-byte and an empty part)",
  "parts of 2, 130, 0, 3 symbolic bytes", covers=["reached"], loops=SLICE_LOOPS, timeout=1800, mem_gb=12)
H("s12_digest_chain_iter_long", "h_inputs::s12_digest_chain_iter_long", "UpdateExt::chain_iter == hash of the concatenation of all parts (incl. a 70-byte and an empty part)",
  "parts of 3, 70, 0, 1 symbolic bytes", covers=["reached"], loops=SLICE_LOOPS, timeout=1800, mem_gb=12)
S12 = S12 + ["s12_mac_update_iter_long", "s12_digest_chain_iter_long"]

PROPERTIES["C01"] = dict(
    quick=SELF + ["s2_client_reg_start_pw2", "s3_client_login_start_pw2", "s4_server_reg_start_cred2", "c03_server_finish_exact",
                  "w1_client_reg_finish_default_ids", "w2_server_login_start_record", "w3e_login_finish_early", "dr_server_registration"],
    thorough=["lemma_spec_ke_agreement", "w3_client_login_finish_default_ids"] + W3Q + [ "s2_client_reg_start_pw0", "s3_client_login_start_pw0", "s4_server_reg_start_cred0"] + W1[1:] + W2[1:] + W3[1:]
             + S6[:2] + ["s7_oprf_key_from_seed", "s8_mask_response", "s8_unmask_response"] + S9U + S9W + S10 + ["s11_derive_3dh_keys"] + LEMMAS,
    assumptions=["each of the eight public steps equals the RFC 9807 step from an arbitrary valid state (S2-S4, S1, W1-W3 with the crate-private units replaced by references proved equal in S6-S11); honest agreement of the composed reference is lemma R1; the algebra of the 20 real suites (DH commutes, unblinding inverts blinding) is not encoded",
                 "production build: the harnesses compile opaque-ke without cfg(test), so the production blind() branch and result tuples are what is executed"])
PROPERTIES["C02"] = dict(
    quick=SELF + S6[:2] + ["s6_pwd_too_long", "s2_client_reg_start_pw2", "s3_client_login_start_pw2", "w3e_login_finish_early"],
    thorough=S6L + W3 + W3Q + ["s3_client_login_start_pw0", "s3_client_login_start_pw2", "s8_unmask_response", "s9_open_raw_exact"] + S9W[4:] + S10[1:] + ["lemma_hmac_eq"],
    assumptions=[CRYPTO_NOTE, "passwords of 0..3 bytes symbolically; the 65536-byte refusal separately; other lengths are outside the bound"])
PROPERTIES["C03"] = dict(
    quick=SELF + ["c03_server_finish_exact", "d_cred_fin", "d_server_login"],
    thorough=["lemma_hmac_eq", "d_all_cred_fin", "d_all_server_login"],
    assumptions=["the server accepts exactly HMAC(km3, transcript hash) of its own pending state — proved for every 24-byte state and every 8-byte finalization; that another session's MAC differs is unforgeability of HMAC (not decided)"])
PROPERTIES["C04"] = dict(
    quick=SELF + ["w3e_login_finish_early", "d_cred_resp", "s9_open_raw_exact", "g2_x25519_pk_roundtrip"],
    thorough=S10[1:] + ["s8_unmask_response"] + W3 + W3Q + S9W[4:] + ["lemma_spec_prefix_injective"],
    assumptions=[CRYPTO_NOTE])
PROPERTIES["C05"] = dict(
    quick=SELF + S12 + ["s9_construct_aad_order", "s7_oprf_key_from_seed", "s10_expand_label_limits", "lemma_spec_prefix_injective"],
    thorough=["s7_oprf_key_from_seed_long_cred"] + S9W + S9WL + S10 + W2 + W3,
    assumptions=[CRYPTO_NOTE, "identity/context contents of 0..2 bytes in the step harnesses; every length 0..131073 for the length-prefix functions"])
PROPERTIES["C06"] = dict(
    quick=SELF + ["s4_server_reg_start_cred0", "w1_client_reg_finish_default_ids", "w2_server_login_start_record", "s9_open_raw_exact", "s9w_open_default_ids", "s12_mac_update_iter_long"],
    thorough=W3 + S9W + ["s8_mask_response", "s8_unmask_response"],
    assumptions=[CRYPTO_NOTE])
PROPERTIES["C08"] = dict(
    quick=SELF + ["s13_dummy_record", "w2_server_login_start_unregistered", "w3e_login_finish_early", "c03_server_finish_exact", "d_cred_resp", "ds_short_setup", "dr_setup"],
    thorough=["w2_server_login_start_unregistered_ids_ctx", "w2_server_login_start_external_key_unregistered", "w2_server_login_start_record", "w3a_login_finish_decision"] + W3,
    assumptions=["'unpredictably' and 'the client always fails on a fake response' are probabilistic statements and are not decided; decided: the fake record (fresh masking key, zero envelope, fake key), the same evaluation function and code path as for a registered user, the error mapping to InvalidLoginError, and exactness of the server's final check"])
PROPERTIES["C09"] = dict(
    quick=SELF + ["s7_oprf_key_from_seed", "s4_server_reg_start_cred2", "s2_client_reg_start_pw2", "s9_seal_raw", "s10_expand_label_limits", "g3_x25519_derive", "s14_derive_auth_keypair_loop"],
    thorough=LEMMAS + S6[:2] + ["s7_oprf_key_from_seed_long_cred", "s8_mask_response", "s8_unmask_response", "s3_client_login_start_pw2", "s5_server_setup_new", "s13_dummy_record"]
             + S9U + S9W + S10 + ["s11_derive_3dh_keys"] + W1 + W2 + W3 + D_QUICK,
    assumptions=["conformance is to the reference model harness/incrate/spec.rs, typed in from RFC 9807 / RFC 9497 (labels, layouts, formulas), over the model suite; SHA-2 and curve arithmetic of the 20 real suites are pinned only by the repository's own RFC vectors"])
PROPERTIES["C10"] = dict(
    quick=SELF + D_QUICK + ["g1_x25519_sk_decode", "g1_x25519_sk_lengths", "g2_x25519_pk_roundtrip", "g2_x25519_pk_no_alias", "g2_x25519_pk_no_alias_canonical",
                            "g4_ristretto_lengths_identity", "g4_ristretto_sk_decode", "g4_ristretto_sk_boundaries", "g5_p256_sk_decode", "g5_p256_sk_lengths", "g5_p384_sk_lengths", "g6_p256_pk_unknown_tags", "g6_p256_pk_bad_tags"],
    thorough=["g6_p256_oprf_elem_compact_tag", "g6_p256_oprf_elem_other_tags", "gs_x25519_pk_serde", "gs_ristretto_pk_identity"] + D_ALL + ["g6_p256_pk_tag_cases"] + DS_ALL + DR_ALL + DS_SHORT,
    assumptions=["opaque-ke's own slicing/length logic is decided on the model suite for all 11 decoders; the real groups' byte-level decoders are decided for Curve25519 (all inputs), ristretto255 scalars, P-256 scalars and tag bytes; point decompression (off-curve x, non-canonical ristretto encodings) needs a symbolic field square root and is not decided"])
PROPERTIES["C11"] = dict(
    quick=SELF + ["d_reg_req", "d_reg_resp", "d_reg_upload", "d_cred_req", "d_cred_resp", "d_setup", "d_client_reg", "d_client_login",
                  "g1_x25519_sk_decode", "g2_x25519_pk_small_order", "g4_ristretto_sk_decode", "g4_ristretto_sk_boundaries", "g5_p256_sk_decode", "g6_p256_pk_unknown_tags", "g6_p256_pk_bad_tags",
                  "ds_keys", "ds_reg_req", "ds_reg_resp", "ds_setup", "ds_client_reg", "ds_cred_req", "ds_reg_upload", "gs_x25519_pk_serde", "gs_x25519_sk_serde", "gs_ristretto_sk_serde"],
    thorough=["g6_p256_pk_tag_cases", "g6_p256_oprf_elem_other_tags", "gs_ristretto_pk_identity", "d_all_reg_resp", "d_all_client_reg", "d_all_setup", "ds_server_registration", "ds_cred_resp", "ds_client_login", "ds_cred_fin", "ds_server_login"],
    assumptions=["serde paths: the crate's Serialize/Deserialize implementations (derive-generated visitors, keypair.rs, voprf's element/scalar adapters, generic-array's tuple impl) are executed symbolically under the harness-defined byte-verbatim format `flat` (byte-identical to bincode 1.x for these fixed-size types); bincode and serde_json themselves (third-party, heap-allocating parsers; self-describing map access by field name) are not encoded",
                 "off-curve / non-canonical point encodings need symbolic decompression: not decided"])
PROPERTIES["C12"] = dict(
    quick=SELF + ["c12_" + n for n in C12_SET],
    thorough=["c12_" + n for n in C12_T],
    assumptions=["panic-freedom is decided for the harnesses listed, with CBMC's memory-safety checks and Kani's Rust panic checks on, within their input bounds; a zero-entropy RNG that makes rejection-sampling loops spin is outside the RNG contract"])
PROPERTIES["C13"] = dict(
    quick=SELF + ["d_setup", "d_setup_xk", "d_server_registration", "d_client_reg", "d_client_login", "d_server_login", "s5_server_setup_new", "c03_server_finish_exact",
                  "dr_setup", "dr_server_registration", "dr_client_reg", "dr_server_login", "ds_setup", "ds_server_login", "ds_client_reg", "ds_short_setup", "ds_short_server_login"],
    thorough=["d_all_setup", "d_all_setup_xk", "d_all_client_reg", "d_win_client_login", "d_all_server_login", "d_win_reg_upload", "dr_client_login", "ds_client_login", "ds_server_registration"] + W2[:1] + W3[:1],
    assumptions=["native byte encodings: decode(encode(x)) is structurally x and encode(decode(b)) == b for all five persisted types, and every step harness starts from deserialized bytes",
                 "serde: for every natively decodable value of the five persisted types, save+reload through the crate's Serialize/Deserialize impls (driven by the byte-verbatim positional format `flat` = bincode 1.x layout) gives a value with the same native encoding and the same serde bytes, and every serde-accepted byte string is canonical and natively valid; bincode / serde_json themselves and by-name (map) field access are not encoded"])
PROPERTIES["C14"] = dict(
    quick=SELF + ["s2_client_reg_start_pw0", "s2_client_reg_start_pw2", "s7_oprf_key_from_seed", "s7_oprf_key_from_seed_long_cred", "s4_server_reg_start_cred0", "s4_server_reg_start_cred2", "s6_pwd_key_len3"],
    thorough=S6L + W1 + W2[:3] + ["s3_client_login_start_pw2"],
    assumptions=[CRYPTO_NOTE, "obliviousness is decided as data flow: the blind is the tape value and occurs in no output other than request = blind*H(pw); the password-derived secrets equal a reference that does not mention the blind"])
PROPERTIES["C15"] = dict(
    quick=SELF + S6 + ["w1_client_reg_finish_default_ids", "w3e_login_finish_early"],
    thorough=W1[1:] + W3 + W3Q,
    assumptions=["the Argon2 adapter (ksf.rs:38-47) is memory-hard by construction and is not encoded; the model KSF records its calls, argument and instance and returns a symbolic output or an error"])
PROPERTIES["C16"] = dict(
    quick=SELF + ["s9_seal_raw", "s9_open_raw_exact", "s9w_seal_client_only", "s9w_seal_server_only", "w1_client_reg_finish_default_ids", "s2_client_reg_start_pw2", "s6_pwd_key_len3"],
    thorough=S9W + W1[1:] + W3 + W3Q,
    assumptions=[CRYPTO_NOTE, "'no secret appears verbatim in any message' is covered only in the sense that every message byte is a specified function (C09) none of which is the export key, session key or password"])
PROPERTIES["C17"] = dict(
    quick=SELF + ["s2_client_reg_start_pw2", "s3_client_login_start_pw2", "s5_server_setup_new", "s13_dummy_record", "s9w_seal_server_only", "w2_server_login_start_unregistered"],
    thorough=["s2_client_reg_start_pw0", "s3_client_login_start_pw0", "s9w_seal_client_only", "s9w_seal_default_ids"] + S10[:2] + W2 + W1[:1],
    assumptions=["determinism: symbolic execution has no entropy source other than the tape (an OS RNG call would surface as a missing foreign function); freshness: every random value equals a fixed function of its own tape segment, segments are disjoint and all drawn bytes are accounted for; statistical independence is not decided"])
PROPERTIES["C18"] = dict(
    quick=SELF + ["s4_server_reg_start_external_key", "w2_server_login_start_external_key", "d_setup_xk"],
    thorough=["s11_derive_3dh_keys_external", "w2_server_login_start_external_key_unregistered", "d_all_setup_xk"],
    assumptions=["the external key is the model MSecretKey (2-byte handle, call log, failure at the n-th call with a caller-chosen code)"])
PROPERTIES["C19"] = dict(
    quick=SELF + ["g1_x25519_sk_decode", "g1_x25519_sk_lengths", "g3_x25519_derive", "g2_x25519_pk_roundtrip", "g5_p256_sk_decode", "g4_ristretto_lengths_identity", "g4_ristretto_sk_decode", "g4_ristretto_sk_boundaries", "s14_derive_auth_keypair_loop", "g5_p256_sk_lengths", "g5_p384_sk_lengths"],
    thorough=["g6_p256_pk_tag_cases", "s9_keys_internal"],
    assumptions=["Diffie-Hellman symmetry and public-key consistency on the five real groups need >= 255 dependent symbolic field multiplications: outside reach, they stay with the repository's proptests; decided: key encodings round-trip, seeded derivation for Curve25519 == RFC 7748 clamp on all 2^256 seeds, scalar range checks"])
