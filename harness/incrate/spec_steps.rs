//! Step-level reference: what each heavy public API step must output, composed from `spec` (RFC 9807 §5.2.3,
//! §6.3.2.3). Used by the wiring harnesses and by the spec-only lemmas.
#![allow(dead_code, missing_docs)]
use super::model::{NH, NN, NPK, PK_TAG};
use super::spec::*;
use super::vk::put;

// =====================================================================================================
// step-level reference (what each public API step must output), used by the wiring harnesses and the
// spec-only lemmas. Identities: `None` = absent (defaults to that party's public key, §4.1).
// =====================================================================================================

pub struct RegFinish {
    pub upload: [u8; NPK + NH + ENV_LEN], // client_public_key || masking_key || envelope (§5.1 RegistrationRecord)
    pub export_key: [u8; NH],
    pub rpwd: [u8; NH],
}
/// FinalizeRegistrationRequest (§5.2.3) given the stretched OPRF output and the envelope nonce actually drawn
pub fn reg_finish(pw: &[u8], blind: u8, evaluated: u8, stretch: impl FnOnce(&[u8; NH]) -> [u8; NH], server_pk: &[u8], id_u: Option<&[u8]>, id_s: Option<&[u8]>, env_nonce: &[u8]) -> RegFinish {
    let out = oprf_finalize(pw, blind, evaluated);
    let rpwd = randomized_pwd(&out, &stretch(&out));
    let mk = masking_key(&rpwd);
    let (_, cpk, _) = envelope_keys(&rpwd, env_nonce);
    let e = envelope(&rpwd, env_nonce, server_pk, id_s.unwrap_or(server_pk), id_u.unwrap_or(&cpk));
    let mut upload = [0u8; NPK + NH + ENV_LEN];
    put(&mut upload[0..NPK], &e.client_pk);
    put(&mut upload[NPK..NPK + NH], &mk);
    put(&mut upload[NPK + NH..NPK + NH + NN], env_nonce);
    put(&mut upload[NPK + NH + NN..], &e.auth_tag);
    RegFinish { upload, export_key: e.export_key, rpwd }
}

pub enum Recovered {
    /// unmasked server key is not a valid key, or the envelope tag does not verify: EnvelopeRecoveryError -> invalid login
    Invalid,
    Ok { server_pk: [u8; NPK], client_sk: u8, client_pk: [u8; NPK], export_key: [u8; NH] },
}
/// RecoverCredentials (§6.3.2.3) given randomized_pwd
pub fn recover_credentials(rpwd: &[u8], masking_nonce: &[u8], masked: &[u8], id_u: Option<&[u8]>, id_s: Option<&[u8]>) -> Recovered {
    let mk = masking_key(rpwd);
    let plain = unmask(&mk, masking_nonce, masked);
    if !(plain[0] == PK_TAG && plain[1] >= 1 && plain[1] <= 240) {
        return Recovered::Invalid;
    }
    let server_pk = [plain[0], plain[1]];
    let nonce = &plain[NPK..NPK + NN];
    let tag = &plain[NPK + NN..];
    let (_, cpk, _) = envelope_keys(rpwd, nonce);
    let e = envelope(rpwd, nonce, &server_pk, id_s.unwrap_or(&server_pk), id_u.unwrap_or(&cpk));
    let mut acc = 0u8;
    let mut i = 0;
    while i < NH {
        acc |= e.auth_tag[i] ^ tag[i];
        i += 1;
    }
    if acc != 0 {
        return Recovered::Invalid;
    }
    Recovered::Ok { server_pk, client_sk: e.client_sk, client_pk: e.client_pk, export_key: e.export_key }
}
