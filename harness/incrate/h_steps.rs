//! S2–S5, S13 — the light public steps, from arbitrary inputs / tapes (DESIGN.md §3.3).
use generic_array::GenericArray;
use rand::RngCore;

use super::model::*;
use super::spec;
use super::vk::*;
use crate::keypair::{KeyPair, PrivateKey};
use crate::{
    ClientLogin, ClientRegistration, CredentialRequest, RegistrationRequest, ServerRegistration, ServerSetup,
};

/// is `x` one of the first `n` tape bytes, other than the positions in `skip` (a window start, len)?
fn tape_byte_at(t: &Tape, x: u8, idx: usize) -> bool {
    idx < t.pos && t.buf[idx] == x
}
fn window_eq(t: &Tape, start: usize, w: &[u8]) -> bool {
    if start + w.len() > t.pos {
        return false;
    }
    let mut ok = true;
    let mut i = 0;
    while i < w.len() {
        ok &= t.buf[start + i] == w[i];
        i += 1;
    }
    ok
}

fn client_reg_start_case(pw: &[u8]) {
    let mut tape = Tape::symbolic();
    // the blind is drawn by rejection sampling; one draw suffices when the first tape byte is a valid scalar
    assume(tape.buf[0] >= 1 && tape.buf[0] <= 250);
    let mut tape2 = Tape::from(tape.buf);
    let r = ClientRegistration::<M>::start(&mut tape, pw);
    check!(r.is_ok(), "registration start succeeds on every password");
    let Ok(res) = r else { return };
    let st = res.state.serialize();
    let msg = res.message.serialize();
    check!(msg[0] == st[1], "the state remembers the request that was sent");
    check!(v_nonzero_scalar(st[0]), "blind is a valid non-zero scalar");
    check!(msg[0] == spec::oprf_blind(pw, st[0]), "request == blind * HashToGroup(password) (RFC 9497 Blind)");
    check!(tape.pos == 1 && !tape.overrun && st[0] == tape.buf[0], "the blind is drawn from the caller's RNG (production build), nothing else is drawn");
    // deterministic in (password, tape): no hidden entropy
    let r2 = ClientRegistration::<M>::start(&mut tape2, pw);
    if let Ok(res2) = r2 {
        check!(eq_bytes(&res2.state.serialize(), &st) && eq_bytes(&res2.message.serialize(), &msg), "same tape, same output");
        core::mem::forget(res2);
    } else {
        check!(false, "second run with the same tape succeeds");
    }
    cover!(true, "reached");
    core::mem::forget(res);
}

fn v_nonzero_scalar(b: u8) -> bool {
    b >= 1 && b <= 250
}

fn client_login_start_case(pw: &[u8]) {
    let mut tape = Tape::symbolic();
    assume(tape.buf[0] >= 1 && tape.buf[0] <= 250);
    let r = ClientLogin::<M>::start(&mut tape, pw);
    check!(r.is_ok(), "login start succeeds on every password");
    let Ok(res) = r else { return };
    let st = res.state.serialize(); // blind(1) | request(35) | client_e_sk(1) | client_nonce(32)
    let msg = res.message.serialize(); // blinded(1) | client_nonce(32) | client_e_pk(2)
    check!(eq_bytes(&msg, &st[1..36]), "the state holds the very request that was sent");
    check!(msg[0] == spec::oprf_blind(pw, st[0]), "request == blind * HashToGroup(password)");
    check!(eq_bytes(&msg[33..35], &spec::ke_public(st[36])), "ephemeral public key belongs to the ephemeral secret in the state");
    check!(eq_bytes(&msg[1..33], &st[37..69]), "the nonce in the state is the nonce that was sent");
    // every random value is a function of its own tape segment; segments are disjoint and everything drawn is used:
    // 1 byte blind, 1 byte key seed, 32 bytes nonce = 34 bytes in some order
    check!(tape.pos == 34 && !tape.overrun, "exactly blind + key seed + nonce are drawn");
    let blind = st[0];
    let sk = st[36];
    let nonce = &msg[1..33];
    let mut found = false;
    // the three segments in any order: positions (b, s, n) with sizes (1, 1, 32)
    let orders: [(usize, usize, usize); 6] = [(0, 1, 2), (1, 0, 2), (0, 33, 1), (33, 0, 1), (32, 33, 0), (33, 32, 0)];
    let mut i = 0;
    while i < 6 {
        let (b, s, n) = orders[i];
        if tape_byte_at(&tape, blind, b) && sk == spec::derive_dh_keypair(&[tape.buf[s]]) && window_eq(&tape, n, nonce) {
            found = true;
        }
        i += 1;
    }
    check!(found, "blind, ephemeral key (DeriveDiffieHellmanKeyPair of its seed) and nonce each come from their own tape segment");
    cover!(true, "reached");
    core::mem::forget(res);
}

fn server_reg_start_case(cred_id: &[u8]) {
    let sb = any_bytes::<10>();
    let req = any_u8();
    let setup = ServerSetup::<M>::deserialize(&sb);
    let request = RegistrationRequest::<M>::deserialize(&[req]);
    let (Ok(setup), Ok(request)) = (setup, request) else { return };
    let r = ServerRegistration::<M>::start(&setup, request, cred_id);
    check!(r.is_ok(), "registration response is produced for every valid request");
    let Ok(res) = r else { return };
    let m = res.message.serialize(); // evaluated(1) | server_public_key(2)
    let k = spec::oprf_key_for(&sb[0..8], cred_id);
    check!(m[0] == spec::oprf_evaluate(k, req), "evaluation == oprf_key(seed, credential id) * request; independent of static and fake key");
    check!(eq_bytes(&m[1..3], &spec::ke_public(sb[8])), "the response carries the public key of the setup's static key");
    cover!(true, "reached");
    core::mem::forget((res, setup));
}

harnesses! {
    fn s2_client_reg_start_pw0 [unwind = 36] { client_reg_start_case(&[]); }
    fn s2_client_reg_start_pw2 [unwind = 36] { let pw = any_bytes::<2>(); client_reg_start_case(&pw); }
    fn s2_client_reg_start_pw17 [unwind = 36] { let pw = any_bytes::<17>(); client_reg_start_case(&pw); }
    fn s3_client_login_start_pw0 [unwind = 36] { client_login_start_case(&[]); }
    fn s3_client_login_start_pw2 [unwind = 36] { let pw = any_bytes::<2>(); client_login_start_case(&pw); }

    fn s4_server_reg_start_cred0 [unwind = 36] { server_reg_start_case(&[]); }
    fn s4_server_reg_start_cred2 [unwind = 36] { let c = any_bytes::<2>(); server_reg_start_case(&c); }

    /// S4 with an externally held key: same response; only `public_key` is asked of the key (when the key pair is
    /// built), `start` itself makes no call that can fail; a failing key surfaces as that error
    fn s4_server_reg_start_external_key [unwind = 36] {
        let sk = any_u8();
        assume(sk >= 1 && sk <= 240);
        let fail_at = any_usize();
        assume(fail_at <= 2);
        let code = any_u8();
        let req = any_u8();
        assume(req >= 1 && req <= 250);
        let c = any_bytes::<1>();
        xk_reset(fail_at, code);
        let kp = KeyPair::<G241, MSecretKey>::from_private_key(MSecretKey(sk));
        match kp {
            Err(e) => {
                check!(fail_at == 1, "key pair construction fails only if the key's public_key call fails");
                check!(matches!(e, crate::errors::ProtocolError::LibraryError(crate::errors::InternalError::Custom(XkError(x))) if x == code), "the external key's own error is returned");
                cover!(true, "external key failure");
            }
            Ok(kp) => {
                let mut tape = Tape::symbolic();
                let setup = ServerSetup::<M, MSecretKey>::new_with_key(&mut tape, kp);
                let calls_before = unsafe { XK_CALLS };
                let request = RegistrationRequest::<M>::deserialize(&[req]).unwrap();
                let r = ServerRegistration::<M>::start(&setup, request, &c);
                check!(r.is_ok(), "registration response is produced");
                check!(unsafe { XK_CALLS } == calls_before, "start uses only the cached public key: no call that can fail");
                check!(unsafe { XK_SER_CALLS } == 0, "the external key is never serialized");
                if let Ok(res) = r {
                    let m = res.message.serialize();
                    let seed = setup.serialize();
                    let k = spec::oprf_key_for(&seed[0..8], &c);
                    check!(m[0] == spec::oprf_evaluate(k, req) && eq_bytes(&m[1..3], &spec::ke_public(sk)), "same response as with the key held directly");
                    cover!(true, "reached");
                    core::mem::forget(res);
                }
                core::mem::forget(setup);
            }
        }
    }

    /// S5: ServerSetup::new draws static key seed, OPRF seed and fake key seed from disjoint tape segments;
    /// keys are DeriveDiffieHellmanKeyPair of their seeds; serialize/deserialize round trip
    fn s5_server_setup_new [unwind = 36] {
        let mut tape = Tape::symbolic();
        let setup = ServerSetup::<M>::new(&mut tape);
        let b = setup.serialize(); // oprf_seed(8) | sk(1) | fake_sk(1)
        check!(tape.pos == 10 && !tape.overrun, "exactly 1 + 8 + 1 bytes are drawn");
        let mut found = false;
        // segments (static key seed, oprf seed, fake key seed) of sizes (1, 8, 1) in any order
        let orders: [(usize, usize, usize); 6] = [(0, 1, 9), (0, 2, 1), (8, 0, 9), (9, 0, 8), (1, 2, 0), (9, 1, 0)];
        let mut i = 0;
        while i < 6 {
            let (s, o, f) = orders[i];
            if b[8] == spec::derive_dh_keypair(&[tape.buf[s]]) && window_eq(&tape, o, &b[0..8]) && b[9] == spec::derive_dh_keypair(&[tape.buf[f]]) {
                found = true;
            }
            i += 1;
        }
        check!(found, "static key, OPRF seed and fake key each come from their own tape segment");
        check!(eq_bytes(&setup.keypair().public().serialize(), &spec::ke_public(b[8])), "public key belongs to the private key");
        let back = ServerSetup::<M>::deserialize(&b);
        check!(back.is_ok(), "a fresh setup reloads");
        if let Ok(x) = back {
            check!(eq_bytes(&x.serialize(), &b), "reloaded setup serializes identically");
            core::mem::forget(x);
        }
        cover!(true, "reached");
        core::mem::forget(setup);
    }

    /// S13: the record substituted for an unregistered user: masking key = the next 8 tape bytes, all-zero
    /// envelope, public key of the setup's fake key
    fn s13_dummy_record [unwind = 56] {
        let sb = any_bytes::<10>();
        let Ok(setup) = ServerSetup::<M>::deserialize(&sb) else { return };
        let mut tape = Tape::symbolic();
        let rec = ServerRegistration::<M>::dummy(&mut tape, &setup);
        let b = rec.serialize(); // client_public_key(2) | masking_key(8) | envelope(40)
        check!(eq_bytes(&b[0..2], &spec::ke_public(sb[9])), "fake record carries the public key of the setup's fake key");
        check!(tape.pos == 8 && window_eq(&tape, 0, &b[2..10]), "fake masking key is fresh randomness from the caller's RNG");
        let mut z = 0u8;
        let mut i = 10;
        while i < 50 {
            z |= b[i];
            i += 1;
        }
        check!(z == 0, "fake envelope is all-zero");
        cover!(true, "reached");
        core::mem::forget((rec, setup));
    }
}
