//! Harnesses on the module-private units of src/opaque.rs (included as a child module by the hook at the
//! end of that file, so `super::` reaches the private functions).
#![allow(dead_code, unsafe_code, missing_docs, unused_imports, static_mut_refs, clippy::all)]
include!("/verif/harness/common/macros.rs");
use super::*;
use crate::verif_kani::harnesses;
use crate::verif_kani::model::*;
use crate::verif_kani::spec;
use crate::verif_kani::spec_prims as sp;
use crate::verif_kani::vk::*;

static BIG: [u8; 65537] = [0u8; 65537];

fn oprf_client(blind: u8) -> voprf::OprfClient<MOprf> {
    voprf::OprfClient::<MOprf>::deserialize(&[blind]).unwrap()
}
fn eval_elem(e: u8) -> voprf::EvaluationElement<MOprf> {
    voprf::EvaluationElement::<MOprf>::deserialize(&[e]).unwrap()
}

/// S6 for one concrete password length
fn pwd_key_case(pw: &[u8]) {
    let blind = any_u8();
    let eval = any_u8();
    assume(blind >= 1 && blind <= 250 && eval >= 1 && eval <= 250);
    let ksf_out = any_bytes::<8>();
    let ksf_fail = any_bool();
    let use_some = any_bool();
    let tag = any_u8();
    ksf_reset(ksf_out, ksf_fail);
    let k = MKsf { tag };
    let r = get_password_derived_key::<M>(pw, oprf_client(blind), eval_elem(eval), if use_some { Some(&k) } else { None });
    let eff_tag = if use_some { tag } else { 0 };
    let oprf_out = spec::oprf_finalize(pw, blind, eval);
    unsafe {
        check!(KSF_CALLS == 1, "the stretching function is evaluated exactly once");
        check!(KSF_LAST_TAG == eff_tag, "the instance used is the one passed, or the default when none is passed");
        check!(KSF_LAST_LEN == NH && eq_bytes(&KSF_LAST_IN, &oprf_out), "the stretching function is applied to the OPRF output (RFC 9497 Finalize)");
    }
    match r {
        Ok((rpwd, hk)) => {
            check!(!ksf_fail, "a failing stretching function is not ignored");
            let mut stretched = ksf_out;
            let mut i = 0;
            while i < NH {
                stretched[i] ^= eff_tag;
                i += 1;
            }
            let want = spec::randomized_pwd(&oprf_out, &stretched);
            check!(eq_bytes(&rpwd, &want), "randomized_pwd == Extract(\"\", oprf_output || Stretch(oprf_output))");
            let mut mk = [0u8; NH];
            hk.expand(b"MaskingKey", &mut mk).unwrap();
            check!(eq_bytes(&mk, &spec::masking_key(&want)), "the returned HKDF context is keyed with randomized_pwd");
            cover!(true, "ok");
            core::mem::forget(hk);
        }
        Err(_) => {
            check!(ksf_fail, "stretching succeeded but the step failed");
            cover!(true, "ksf error");
        }
    }
    check!(!unsafe { UF_OVERFLOW }, "UF table large enough");
}

fn oprf_key_case(seed: &[u8; 8], cred_id: &[u8]) {
    let seed_ga = GenericArray::clone_from_slice(seed);
    let r = oprf_key_from_seed::<M>(&seed_ga, cred_id);
    check!(r.is_ok(), "key derivation succeeds");
    if let Ok(k) = r {
        check!(k[0] == spec::oprf_key_for(seed, cred_id), "per-credential OPRF key per RFC 9807 6.3.1.2 / RFC 9497 3.2.1");
        check!(k[0] >= 1 && k[0] <= 250, "derived key is a valid non-zero scalar");
    }
}

harnesses! {
    /// S6: get_password_derived_key, password of 3 symbolic bytes
    fn s6_pwd_key_len3 [unwind = 36] {
        let pw = any_bytes::<3>();
        pwd_key_case(&pw);
    }
    /// S6: a password longer than the hash output and than a hash block (17 bytes): no truncation at either size
    fn s6_pwd_key_len17 [unwind = 36] {
        let pw = any_bytes::<17>();
        pwd_key_case(&pw);
    }
    /// S6: empty password
    fn s6_pwd_key_len0 [unwind = 36] {
        pwd_key_case(&[]);
    }
    /// S6: passing the default instance explicitly == passing none (same output for the same KSF behaviour)
    fn s6_default_explicit_eq_none [unwind = 36] {
        let pw = any_bytes::<2>();
        let blind = any_u8();
        let eval = any_u8();
        assume(blind >= 1 && blind <= 250 && eval >= 1 && eval <= 250);
        let ksf_out = any_bytes::<8>();
        ksf_reset(ksf_out, false);
        let d = MKsf::default();
        let a = get_password_derived_key::<M>(&pw, oprf_client(blind), eval_elem(eval), Some(&d));
        ksf_reset(ksf_out, false);
        let b = get_password_derived_key::<M>(&pw, oprf_client(blind), eval_elem(eval), None);
        match (a, b) {
            (Ok((x, hx)), Ok((y, hy))) => { check!(eq_bytes(&x, &y), "explicit default instance == none"); cover!(true, "ok"); core::mem::forget((hx, hy)); }
            _ => { check!(false, "both calls succeed"); }
        }
    }
    /// S6/C12: a 65536-byte password is refused with an error (not truncated, not wrapped), before any stretching
    fn s6_pwd_too_long [unwind = 36] {
        let blind = any_u8();
        let eval = any_u8();
        assume(blind >= 1 && blind <= 250 && eval >= 1 && eval <= 250);
        ksf_reset([0; 8], false);
        let r = get_password_derived_key::<M>(&BIG[..65536], oprf_client(blind), eval_elem(eval), None);
        check!(r.is_err(), "a password that does not fit the 2-byte length prefix is refused");
        check!(unsafe { KSF_CALLS } == 0, "nothing is stretched for a refused password");
        cover!(true, "reached");
        core::mem::forget(r);
    }

    /// S7: oprf_key_from_seed == DeriveKeyPair(Expand(seed, cred_id || "OprfKey", Nok), "OPAQUE-DeriveKeyPair")
    fn s7_oprf_key_from_seed [unwind = 36] {
        let seed = any_bytes::<8>();
        let cred = any_bytes::<2>();
        oprf_key_case(&seed, &cred[..0]);
        oprf_key_case(&seed, &cred[..1]);
        oprf_key_case(&seed, &cred[..2]);
        cover!(true, "reached");
        check!(!unsafe { UF_OVERFLOW }, "UF table large enough");
    }

    /// S7 with credential identifiers longer than the hash output (8) and longer than a hash block (16): every byte counts
    fn s7_oprf_key_from_seed_long_cred [unwind = 36] {
        let seed = any_bytes::<8>();
        let cred = any_bytes::<20>();
        oprf_key_case(&seed, &cred[..9]);
        oprf_key_case(&seed, &cred[..20]);
        cover!(true, "reached");
    }

    /// S8: mask_response == Expand(masking_key, nonce || "CredentialResponsePad") XOR (server_public_key || envelope)
    fn s8_mask_response [unwind = 46] {
        let mk = any_bytes::<8>();
        let nonce = any_bytes::<32>();
        let pkv = any_u8();
        assume(pkv >= 1 && pkv <= 240);
        let envb = any_bytes::<40>();
        let pk = PublicKey::<G241>::deserialize(&[PK_TAG, pkv]).unwrap();
        let env = Envelope::<M>::deserialize(&envb).unwrap();
        let r = mask_response::<M>(&mk, &nonce, &pk, &env);
        check!(r.is_ok(), "masking succeeds");
        if let Ok(m) = r {
            let want = spec::mask(&mk, &nonce, &[PK_TAG, pkv], &envb[0..32], &envb[32..40]);
            let got = m.serialize();
            check!(eq_bytes(&got[0..2], &want[0..2]), "masked_response[0..2] == pad XOR server public key");
            check!(eq_bytes(&got[2..34], &want[2..34]), "masked_response[2..34] == pad XOR envelope nonce");
            check!(eq_bytes(&got[34..42], &want[34..42]), "masked_response[34..42] == pad XOR envelope auth tag");
            cover!(true, "reached");
            core::mem::forget(m);
        }
        core::mem::forget((pk, env));
    }

    /// S8: unmask_response inverts it: Ok((pk, envelope)) <=> the unmasked first two bytes are a valid public key,
    /// and then pk/envelope are the unmasked bytes
    fn s8_unmask_response [unwind = 46] {
        let mk = any_bytes::<8>();
        let nonce = any_bytes::<32>();
        let masked = any_bytes::<42>();
        let mr = MaskedResponse::<M>::deserialize(&masked);
        let r = unmask_response::<M>(&mk, &nonce, &mr);
        let plain = spec::unmask(&mk, &nonce, &masked);
        let valid = plain[0] == PK_TAG && plain[1] >= 1 && plain[1] <= 240;
        match r {
            Ok((pk, env)) => {
                check!(valid, "garbage public key after unmasking is refused");
                check!(eq_bytes(&pk.serialize(), &plain[0..2]), "server public key == unmasked bytes");
                check!(eq_bytes(&env.serialize(), &plain[2..42]), "envelope == unmasked bytes");
                cover!(true, "ok");
                core::mem::forget((pk, env));
            }
            Err(e) => {
                check!(!valid, "a valid unmasked public key is accepted");
                cover!(true, "rejected");
                core::mem::forget(e);
            }
        }
        core::mem::forget(mr);
    }
}
