//! W — wiring harnesses for the three heavy API steps (DESIGN.md §3.4): the real step functions of src/opaque.rs run
//! over suite MW (recording key exchange) with the crate-private units replaced by their reference stubs
//! (w_stubs.rs; each stub ≡ the real unit by S6–S9). What is decided here is everything the step itself does:
//! which values it hands to which unit, the order of checks, error mapping, what it draws from the RNG and how the
//! result is assembled — against the RFC 9807 step (spec_steps.rs).
use generic_array::GenericArray;

use super::model::*;
use super::spec;
use super::spec_steps as ss;
use super::vk::*;
use super::w_stubs::*;
use crate::errors::{InternalError, ProtocolError};
use crate::keypair::KeyPair;
use crate::opaque::Identifiers;
use crate::{
    ClientLogin, ClientLoginFinishParameters, ClientRegistration, ClientRegistrationFinishParameters, CredentialRequest,
    CredentialResponse, RegistrationResponse, ServerLogin, ServerLoginStartParameters, ServerRegistration, ServerSetup,
};

fn stretch_with(ksf_out: [u8; 8], tag: u8) -> impl FnOnce(&[u8; 8]) -> [u8; 8] {
    move |_| {
        let mut s = ksf_out;
        let mut i = 0;
        while i < 8 {
            s[i] ^= tag;
            i += 1;
        }
        s
    }
}

struct Ids {
    has_c: bool,
    has_s: bool,
    c: [u8; 2],
    s: [u8; 2],
}

fn reg_finish_case(ids_case: u8) {
    let st = any_bytes::<2>(); // blind | blinded
    let rb = any_bytes::<3>(); // evaluated | server_public_key
    let pw = any_bytes::<2>();
    let idc = any_bytes::<2>();
    let ids = any_bytes::<1>();
    let ksf_out = any_bytes::<8>();
    let ksf_fail = any_bool();
    let use_some = any_bool();
    let tag = any_u8();
    let mut tape = Tape::symbolic();
    let Ok(state) = ClientRegistration::<MW>::deserialize(&st) else { return };
    let Ok(resp) = RegistrationResponse::<MW>::deserialize(&rb) else { return };
    let (id_u, id_s): (Option<&[u8]>, Option<&[u8]>) = match ids_case {
        0 => (None, None),
        1 => (Some(&idc[..]), Some(&ids[..])),
        _ => (None, Some(&ids[..0])),
    };
    ksf_reset(ksf_out, ksf_fail);
    let k = MKsf { tag };
    let params = ClientRegistrationFinishParameters::<MW>::new(Identifiers { client: id_u, server: id_s }, if use_some { Some(&k) } else { None });
    let r = state.finish(&mut tape, &pw, resp, params);
    let eff_tag = if use_some { tag } else { 0 };
    let reflected = st[1] == rb[0];
    match r {
        Ok(res) => {
            check!(!reflected, "a reflected OPRF value is refused");
            check!(!ksf_fail, "a failing stretching function is not ignored");
            check!(unsafe { KSF_CALLS } == 1 && unsafe { KSF_LAST_TAG } == eff_tag, "the caller's stretching instance (or the default) is used exactly once");
            check!(tape.pos == 32 && !tape.overrun, "exactly the envelope nonce is drawn");
            let w = ss::reg_finish(&pw, st[0], rb[0], stretch_with(ksf_out, eff_tag), &rb[1..3], id_u, id_s, &tape.buf[0..32]);
            check!(eq_bytes(&res.message.serialize(), &w.upload), "registration record == client_public_key || masking_key || envelope per RFC 9807 5.2.3");
            check!(eq_bytes(&res.export_key, &w.export_key), "export key per RFC 9807 4.1.2");
            check!(eq_bytes(&res.server_s_pk.serialize(), &rb[1..3]), "the server public key reported is the one in the response");
            cover!(true, "ok");
            core::mem::forget(res);
        }
        Err(e) => {
            check!(reflected || ksf_fail, "registration finish succeeds on every valid response");
            if reflected {
                check!(matches!(e, ProtocolError::ReflectedValueError), "reflection is reported as such");
                check!(unsafe { KSF_CALLS } == 0, "nothing is computed on a reflected value");
            }
            cover!(reflected, "reflected");
            cover!(ksf_fail && !reflected, "ksf failure");
        }
    }
}

fn login_finish_case(ids_case: u8, has_ctx: bool, part: u8) {
    let st = any_bytes::<69>(); // blind | request(35) | client_e_sk | client_nonce
    let rb = any_bytes::<117>(); // evaluated | masking_nonce(32) | masked(42) | server_nonce(32) server_e_pk(2) mac(8)
    let pw = any_bytes::<2>();
    let idc = any_bytes::<2>();
    let ids = any_bytes::<1>();
    let ctx = any_bytes::<2>();
    let ksf_out = any_bytes::<8>();
    let ksf_fail = any_bool();
    let use_some = any_bool();
    let tag = any_u8();
    let outcome = any_u8();
    assume(outcome <= 2);
    let sess = any_bytes::<8>();
    let mac3 = any_bytes::<8>();
    let Ok(state) = ClientLogin::<MW>::deserialize(&st) else { return };
    let Ok(resp) = CredentialResponse::<MW>::deserialize(&rb) else { return };
    let (id_u, id_s): (Option<&[u8]>, Option<&[u8]>) = match ids_case {
        0 => (None, None),
        1 => (Some(&idc[..]), Some(&ids[..])),
        _ => (Some(&idc[..0]), None),
    };
    ksf_reset(ksf_out, ksf_fail);
    mke_reset(outcome);
    unsafe {
        MKE_SESSION_KEY = sess;
        MKE_KE3_MAC = mac3;
    }
    let k = MKsf { tag };
    let params = ClientLoginFinishParameters::<MW>::new(if has_ctx { Some(&ctx[..]) } else { None }, Identifiers { client: id_u, server: id_s }, if use_some { Some(&k) } else { None });
    let r = state.finish(&pw, resp, params);
    let eff_tag = if use_some { tag } else { 0 };
    let reflected = st[1] == rb[0];
    // reference
    let out = spec::oprf_finalize(&pw, st[0], rb[0]);
    let rpwd = spec::randomized_pwd(&out, &stretch_with(ksf_out, eff_tag)(&out));
    let rec = ss::recover_credentials(&rpwd, &rb[1..33], &rb[33..75], id_u, id_s);
    match r {
        Ok(res) => {
            if part == 0 || part == 1 {
                check!(!reflected, "a reflected OPRF value is refused");
                check!(!ksf_fail, "a failing stretching function is not ignored");
                check!(unsafe { KSF_CALLS } == 1 && unsafe { KSF_LAST_TAG } == eff_tag, "the caller's stretching instance (or the default) is used exactly once");
                check!(outcome == 0, "no result is released when the key exchange rejects the server's MAC");
                check!(matches!(rec, ss::Recovered::Ok { .. }), "login completes although credential recovery must fail (wrong password / tampered response)");
            }
            match rec {
                ss::Recovered::Ok { server_pk, client_sk, client_pk, export_key } => {
                    if part == 0 || part == 2 {
                        check!(eq_bytes(&res.export_key, &export_key), "export key recovered per RFC 9807 4.1.3");
                        check!(eq_bytes(&res.server_s_pk.serialize(), &server_pk), "the server public key returned is the unmasked (and envelope-authenticated) one");
                        check!(eq_bytes(&res.session_key, &sess) && eq_bytes(&res.message.serialize(), &mac3), "session key and finalization are the key exchange's outputs");
                    }
                    // what the key exchange was given
                    if part == 0 || part == 3 { unsafe {
                        check!(REC.calls == 1 && !REC.overflow, "the key exchange is run once");
                        check!(parts_are(&REC.l1, &[&st[1..2], &st[2..36]]), "the client's own request (blinded element, KE1 message) goes into the transcript");
                        check!(parts_are(&REC.l2, &[&rb[0..1], &rb[1..33], &rb[33..65], &rb[65..73], &rb[73..75]]), "evaluation, masking nonce and masked response go into the transcript");
                        check!(eq_bytes(&REC.ke2_msg, &rb[75..117]), "the server's key-exchange message is handed on unchanged");
                        check!(eq_bytes(&REC.ke1_state, &st[36..69]), "the client's own ephemeral state is used");
                        check!(eq_bytes(&REC.peer_pk, &server_pk), "3DH uses the unmasked server public key");
                        check!(eq_bytes(&REC.own_pk, &client_pk) && client_pk[1] == mulmod(GEN2, client_sk, P2), "3DH uses the client key recovered from the envelope");
                        let eu: &[u8] = id_u.unwrap_or(&client_pk);
                        let es: &[u8] = id_s.unwrap_or(&server_pk);
                        check!(parts_are(&REC.id_u, &[&[0u8, eu.len() as u8], eu]), "effective client identity (length-prefixed) goes into the transcript");
                        check!(parts_are(&REC.id_s, &[&[0u8, es.len() as u8], es]), "effective server identity (length-prefixed) goes into the transcript");
                        let ec: &[u8] = if has_ctx { &ctx } else { &[] };
                        check!(REC.ctx_len == ec.len() && eq_bytes(&REC.ctx[..ec.len()], ec), "the caller's context (absent = empty) goes into the transcript");
                    } }
                    cover!(true, "ok");
                }
                ss::Recovered::Invalid => {}
            }
            core::mem::forget(res);
        }
        Err(e) => {
            let recover_ok = matches!(rec, ss::Recovered::Ok { .. });
            if part == 2 || part == 3 {
                return;
            }
            check!(reflected || ksf_fail || !recover_ok || outcome != 0, "login finish succeeds on the genuine response");
            if reflected {
                check!(matches!(e, ProtocolError::ReflectedValueError), "reflection is reported as such");
            } else if !ksf_fail && !recover_ok {
                check!(matches!(e, ProtocolError::InvalidLoginError), "failed credential recovery (wrong password, fake or tampered record) is the invalid-login error");
                check!(unsafe { REC.calls } == 0, "the key exchange is not run on unrecoverable credentials");
                cover!(true, "invalid login");
            } else if !ksf_fail && outcome == 1 {
                check!(matches!(e, ProtocolError::InvalidLoginError), "a rejected server MAC is the invalid-login error");
                cover!(true, "mac rejected");
            }
            cover!(reflected, "reflected");
            cover!(ksf_fail && !reflected, "ksf failure");
        }
    }
}

/// W3-early: the two exits of ClientLogin::finish that come before any unmasking — a reflected OPRF value, and a failing
/// key-stretching function (which also shows *which* instance the step handed to the stretching: the caller's, or the
/// default when none is passed). Cheap enough for every quick tier; the full step is W3.
fn login_finish_early_case() {
    let st = any_bytes::<69>();
    let rb = any_bytes::<117>();
    let pw = any_bytes::<2>();
    let use_some = any_bool();
    let tag = any_u8();
    let Ok(state) = ClientLogin::<MW>::deserialize(&st) else { return };
    let Ok(resp) = CredentialResponse::<MW>::deserialize(&rb) else { return };
    ksf_reset([0u8; 8], true);
    mke_reset(0);
    let k = MKsf { tag };
    let params = ClientLoginFinishParameters::<MW>::new(None, Identifiers::default(), if use_some { Some(&k) } else { None });
    let r = state.finish(&pw, resp, params);
    let reflected = st[1] == rb[0];
    match r {
        Ok(res) => {
            check!(false, "login completes although the key-stretching function failed");
            core::mem::forget(res);
        }
        Err(e) => {
            if reflected {
                check!(matches!(e, ProtocolError::ReflectedValueError), "reflection is reported as such");
                check!(unsafe { KSF_CALLS } == 0, "nothing is computed on a reflected value");
                cover!(true, "reflected");
            } else {
                check!(unsafe { KSF_CALLS } == 1, "the stretching function is evaluated exactly once");
                check!(unsafe { KSF_LAST_TAG } == if use_some { tag } else { 0 }, "the instance handed to the stretching is the caller's, or the default when none is passed");
                let out = spec::oprf_finalize(&pw, st[0], rb[0]);
                check!(unsafe { KSF_LAST_LEN } == 8 && eq_bytes(unsafe { &KSF_LAST_IN }, &out), "the stretching function is applied to Finalize(password, blind, evaluation) with the password given to finish");
                check!(unsafe { REC.calls } == 0, "no key exchange after a failed stretching");
                cover!(use_some, "explicit instance");
                cover!(!use_some, "default instance");
            }
        }
    }
}

struct StartIn {
    seed: [u8; 8],
    sk: u8,
    fake_sk: u8,
    recb: [u8; 50],
    reqb: [u8; 35],
    idc: [u8; 2],
    ids: [u8; 1],
    ctx: [u8; 2],
    ke2_state: [u8; 24],
    ke2_msg: [u8; 42],
}

/// post-conditions of a successful ServerLogin::start (m = response bytes, stb = pending state bytes)
fn start_checks(x: &StartIn, m: &[u8], stb: &[u8], tape: &Tape, has_record: bool, id_u: Option<&[u8]>, id_s: Option<&[u8]>, ctx: Option<&[u8]>, cred: &[u8]) {
    let server_pk = spec::ke_public(x.sk);
    let fake_pk = spec::ke_public(x.fake_sk);
    let k = spec::oprf_key_for(&x.seed, cred);
    check!(m[0] == spec::oprf_evaluate(k, x.reqb[0]), "evaluation == oprf_key(seed, credential id) * request — the same function for registered and unregistered users");
    // randomness: unregistered: fake masking key (8) and masking nonce (32); registered: masking nonce only
    let (mk, client_pk, env): ([u8; 8], [u8; 2], [u8; 40]) = if has_record {
        check!(tape.pos == 32 && !tape.overrun && eq_bytes(&m[1..33], &tape.buf[0..32]), "masking nonce is 32 fresh bytes from the caller's RNG");
        let mut mk = [0u8; 8];
        put(&mut mk, &x.recb[2..10]);
        let mut env = [0u8; 40];
        put(&mut env, &x.recb[10..50]);
        (mk, [x.recb[0], x.recb[1]], env)
    } else {
        check!(tape.pos == 40 && !tape.overrun, "fake masking key and masking nonce are drawn from the caller's RNG");
        // either order of the two draws; no symbolic slicing
        let nonce_first = eq_bytes(&m[1..33], &tape.buf[0..32]);
        let nonce_second = eq_bytes(&m[1..33], &tape.buf[8..40]);
        check!(nonce_first || nonce_second, "masking nonce is 32 fresh bytes, disjoint from the fake masking key's");
        let mut mk = [0u8; 8];
        let mut i = 0;
        while i < 8 {
            mk[i] = if nonce_first { tape.buf[32 + i] } else { tape.buf[i] };
            i += 1;
        }
        (mk, fake_pk, [0u8; 40])
    };
    let masked = spec::mask(&mk, &m[1..33], &server_pk, &env[0..32], &env[32..40]);
    check!(eq_bytes(&m[33..75], &masked), "masked_response == pad(masking_key, nonce) XOR (the setup's public key || the record's envelope)");
    check!(eq_bytes(&m[75..117], &x.ke2_msg), "the key exchange's message completes the response");
    check!(eq_bytes(stb, &x.ke2_state), "the pending state is the key exchange's state");
    unsafe {
        check!(REC.calls == 1 && !REC.overflow, "the key exchange is run once");
        check!(parts_are(&REC.l1, &[&x.reqb[0..1], &x.reqb[1..35]]), "the client's request (blinded element, KE1 message) goes into the transcript");
        check!(parts_are(&REC.l2, &[&m[0..1], &m[1..33], &m[33..65], &m[65..73], &m[73..75]]), "evaluation, masking nonce and masked response go into the transcript");
        check!(eq_bytes(&REC.ke1_msg, &x.reqb[1..35]), "the client's key-exchange message is handed on unchanged");
        check!(eq_bytes(&REC.peer_pk, &client_pk), "3DH uses the record's client public key (the fake key for unregistered users)");
        check!(REC.own_pk_ok && eq_bytes(&REC.own_pk, &server_pk), "3DH uses the setup's static key");
        let eu: &[u8] = id_u.unwrap_or(&client_pk);
        let es: &[u8] = id_s.unwrap_or(&server_pk);
        check!(parts_are(&REC.id_u, &[&[0u8, eu.len() as u8], eu]), "effective client identity (length-prefixed) goes into the transcript");
        check!(parts_are(&REC.id_s, &[&[0u8, es.len() as u8], es]), "effective server identity (length-prefixed) goes into the transcript");
        let ec: &[u8] = ctx.unwrap_or(&[]);
        check!(REC.ctx_len == ec.len() && eq_bytes(&REC.ctx[..ec.len()], ec), "the caller's context (absent = empty) goes into the transcript");
    }
}

fn start_inputs() -> StartIn {
    let x = StartIn {
        seed: any_bytes::<8>(),
        sk: any_u8(),
        fake_sk: any_u8(),
        recb: any_bytes::<50>(),
        reqb: any_bytes::<35>(),
        idc: any_bytes::<2>(),
        ids: any_bytes::<1>(),
        ctx: any_bytes::<2>(),
        ke2_state: any_bytes::<24>(),
        ke2_msg: any_bytes::<42>(),
    };
    assume(x.sk >= 1 && x.sk <= 240 && x.fake_sk >= 1 && x.fake_sk <= 240);
    assume(x.ke2_msg[32] == PK_TAG && x.ke2_msg[33] >= 1 && x.ke2_msg[33] <= 240);
    x
}

fn pick_ids<'a>(x: &'a StartIn, ids_case: u8) -> (Option<&'a [u8]>, Option<&'a [u8]>) {
    match ids_case {
        0 => (None, None),
        1 => (Some(&x.idc[..]), Some(&x.ids[..])),
        _ => (None, Some(&x.ids[..0])),
    }
}

/// ServerLogin::start with a directly held key
fn server_login_start_case(has_record: bool, ids_case: u8, has_ctx: bool, cred: &[u8]) {
    let x = start_inputs();
    let outcome = any_u8();
    assume(outcome == 0 || outcome == 2);
    let mut tape = Tape::symbolic();
    let mut sb = [0u8; 10];
    put(&mut sb[..8], &x.seed);
    sb[8] = x.sk;
    sb[9] = x.fake_sk;
    let Ok(setup) = ServerSetup::<MW>::deserialize(&sb) else { return };
    let Ok(request) = CredentialRequest::<MW>::deserialize(&x.reqb) else { return };
    let record = if has_record {
        let Ok(r) = ServerRegistration::<MW>::deserialize(&x.recb) else { return };
        Some(r)
    } else {
        None
    };
    let (id_u, id_s) = pick_ids(&x, ids_case);
    let ctx: Option<&[u8]> = if has_ctx { Some(&x.ctx[..]) } else { None };
    mke_reset(outcome);
    unsafe {
        MKE_KE2_STATE = x.ke2_state;
        MKE_KE2_MSG = x.ke2_msg;
    }
    let params = ServerLoginStartParameters { context: ctx, identifiers: Identifiers { client: id_u, server: id_s } };
    match ServerLogin::<MW>::start(&mut tape, &setup, record, request, cred, params) {
        Ok(res) => {
            check!(outcome == 0, "a failing key exchange is not ignored");
            start_checks(&x, &res.message.serialize(), &res.state.serialize(), &tape, has_record, id_u, id_s, ctx, cred);
            cover!(true, "ok");
            core::mem::forget(res);
        }
        Err(e) => {
            check!(outcome != 0, "login start succeeds for every valid request");
            cover!(true, "key exchange failure");
            core::mem::forget(e);
        }
    }
    core::mem::forget(setup);
}

/// ServerLogin::start with an externally held static key that fails at the n-th call (C18)
fn server_login_start_external(has_record: bool) {
    let mut x = start_inputs();
    let fail_at = any_usize();
    assume(fail_at <= 3);
    let code = any_u8();
    let cred = any_bytes::<1>();
    xk_reset(0, 0);
    let Ok(kp) = KeyPair::<G241, MSecretKey>::from_private_key(MSecretKey(x.sk)) else { return };
    let mut t0 = Tape::symbolic();
    let setup = ServerSetup::<MW, MSecretKey>::new_with_key(&mut t0, kp);
    let sb = setup.serialize(); // oprf_seed(8) | key handle(2) | fake_sk(1)
    put(&mut x.seed, &sb[0..8]);
    x.fake_sk = sb[10];
    let Ok(request) = CredentialRequest::<MW>::deserialize(&x.reqb) else { return };
    let record = if has_record {
        let Ok(r) = ServerRegistration::<MW>::deserialize(&x.recb) else { return };
        Some(r)
    } else {
        None
    };
    mke_reset(0);
    unsafe {
        MKE_KE2_STATE = x.ke2_state;
        MKE_KE2_MSG = x.ke2_msg;
    }
    xk_reset(fail_at, code);
    let mut tape = Tape::symbolic();
    let r = ServerLogin::<MW>::start(&mut tape, &setup, record, request, &cred, ServerLoginStartParameters::default());
    let calls = unsafe { XK_CALLS };
    check!(unsafe { XK_SER_CALLS } == 0, "the external key is never serialized by a login");
    match r {
        Ok(res) => {
            check!(fail_at == 0 || fail_at > calls, "a failing external key is not ignored");
            check!(unsafe { XK_PUBLIC_CALLS } == 1 && unsafe { XK_DH_CALLS } == 1, "login asks the external key for its public key and one Diffie-Hellman, nothing else");
            start_checks(&x, &res.message.serialize(), &res.state.serialize(), &tape, has_record, None, None, None, &cred);
            cover!(true, "ok");
            core::mem::forget(res);
        }
        Err(e) => {
            check!(fail_at >= 1 && fail_at <= 2, "login start succeeds when the external key works");
            check!(matches!(e, ProtocolError::LibraryError(InternalError::Custom(XkError(c))) if c == code), "the external key's own error is returned to the caller");
            cover!(fail_at == 1, "public_key failure");
            cover!(fail_at == 2, "diffie_hellman failure");
        }
    }
    core::mem::forget(setup);
}

harnesses! {
    #[cfg_attr(kani, kani::stub(crate::opaque::get_password_derived_key, crate::verif_kani::w_stubs::gpdk))]
    #[cfg_attr(kani, kani::stub(crate::envelope::Envelope::seal, crate::envelope::Envelope::verif_seal_stub))]
    fn w1_client_reg_finish_default_ids [unwind = 56] { reg_finish_case(0); }
    #[cfg_attr(kani, kani::stub(crate::opaque::get_password_derived_key, crate::verif_kani::w_stubs::gpdk))]
    #[cfg_attr(kani, kani::stub(crate::envelope::Envelope::seal, crate::envelope::Envelope::verif_seal_stub))]
    fn w1_client_reg_finish_explicit_ids [unwind = 56] { reg_finish_case(1); }
    #[cfg_attr(kani, kani::stub(crate::opaque::get_password_derived_key, crate::verif_kani::w_stubs::gpdk))]
    #[cfg_attr(kani, kani::stub(crate::envelope::Envelope::seal, crate::envelope::Envelope::verif_seal_stub))]
    fn w1_client_reg_finish_mixed_ids [unwind = 56] { reg_finish_case(2); }

    #[cfg_attr(kani, kani::stub(crate::opaque::get_password_derived_key, crate::verif_kani::w_stubs::gpdk))]
    #[cfg_attr(kani, kani::stub(crate::opaque::unmask_response, crate::verif_kani::w_stubs::unmask))]
    #[cfg_attr(kani, kani::stub(crate::envelope::Envelope::open, crate::envelope::Envelope::verif_open_stub))]
    fn w3_client_login_finish_default_ids [unwind = 120] { login_finish_case(0, false, 0); }
    #[cfg_attr(kani, kani::stub(crate::opaque::get_password_derived_key, crate::verif_kani::w_stubs::gpdk))]
    #[cfg_attr(kani, kani::stub(crate::opaque::unmask_response, crate::verif_kani::w_stubs::unmask))]
    #[cfg_attr(kani, kani::stub(crate::envelope::Envelope::open, crate::envelope::Envelope::verif_open_stub))]
    fn w3_client_login_finish_explicit_ids_ctx [unwind = 120] { login_finish_case(1, true, 0); }
    #[cfg_attr(kani, kani::stub(crate::opaque::get_password_derived_key, crate::verif_kani::w_stubs::gpdk))]
    #[cfg_attr(kani, kani::stub(crate::opaque::unmask_response, crate::verif_kani::w_stubs::unmask))]
    #[cfg_attr(kani, kani::stub(crate::envelope::Envelope::open, crate::envelope::Envelope::verif_open_stub))]
    fn w3_client_login_finish_mixed_ids [unwind = 120] { login_finish_case(2, true, 0); }

    #[cfg_attr(kani, kani::stub(crate::opaque::mask_response, crate::verif_kani::w_stubs::mask))]
    #[cfg_attr(kani, kani::stub(crate::opaque::oprf_key_from_seed, crate::verif_kani::w_stubs::oprf_key))]
    fn w2_server_login_start_record [unwind = 120] { let c = any_bytes::<2>(); server_login_start_case(true, 0, false, &c); }
    #[cfg_attr(kani, kani::stub(crate::opaque::mask_response, crate::verif_kani::w_stubs::mask))]
    #[cfg_attr(kani, kani::stub(crate::opaque::oprf_key_from_seed, crate::verif_kani::w_stubs::oprf_key))]
    fn w2_server_login_start_record_ids_ctx [unwind = 120] { server_login_start_case(true, 1, true, &[]); }
    #[cfg_attr(kani, kani::stub(crate::opaque::mask_response, crate::verif_kani::w_stubs::mask))]
    #[cfg_attr(kani, kani::stub(crate::opaque::oprf_key_from_seed, crate::verif_kani::w_stubs::oprf_key))]
    fn w2_server_login_start_unregistered [unwind = 120] { let c = any_bytes::<2>(); server_login_start_case(false, 0, false, &c); }
    #[cfg_attr(kani, kani::stub(crate::opaque::mask_response, crate::verif_kani::w_stubs::mask))]
    #[cfg_attr(kani, kani::stub(crate::opaque::oprf_key_from_seed, crate::verif_kani::w_stubs::oprf_key))]
    fn w2_server_login_start_unregistered_ids_ctx [unwind = 120] { server_login_start_case(false, 2, true, &[]); }
    #[cfg_attr(kani, kani::stub(crate::opaque::mask_response, crate::verif_kani::w_stubs::mask))]
    #[cfg_attr(kani, kani::stub(crate::opaque::oprf_key_from_seed, crate::verif_kani::w_stubs::oprf_key))]
    fn w2_server_login_start_external_key [unwind = 120] { server_login_start_external(true); }
    #[cfg_attr(kani, kani::stub(crate::opaque::mask_response, crate::verif_kani::w_stubs::mask))]
    #[cfg_attr(kani, kani::stub(crate::opaque::oprf_key_from_seed, crate::verif_kani::w_stubs::oprf_key))]
    fn w2_server_login_start_external_key_unregistered [unwind = 120] { server_login_start_external(false); }

    // W3 split three ways (same run of the real ClientLogin::finish; each harness decides one group of assertions, so that the
    // three SAT problems run in parallel and each fits the quick tier)
    #[cfg_attr(kani, kani::stub(crate::opaque::get_password_derived_key, crate::verif_kani::w_stubs::gpdk))]
    #[cfg_attr(kani, kani::stub(crate::opaque::unmask_response, crate::verif_kani::w_stubs::unmask))]
    #[cfg_attr(kani, kani::stub(crate::envelope::Envelope::open, crate::envelope::Envelope::verif_open_stub))]
    fn w3a_login_finish_decision [unwind = 120] { login_finish_case(0, false, 1); }
    #[cfg_attr(kani, kani::stub(crate::opaque::get_password_derived_key, crate::verif_kani::w_stubs::gpdk))]
    #[cfg_attr(kani, kani::stub(crate::opaque::unmask_response, crate::verif_kani::w_stubs::unmask))]
    #[cfg_attr(kani, kani::stub(crate::envelope::Envelope::open, crate::envelope::Envelope::verif_open_stub))]
    fn w3b_login_finish_outputs [unwind = 120] { login_finish_case(0, false, 2); }
    #[cfg_attr(kani, kani::stub(crate::opaque::get_password_derived_key, crate::verif_kani::w_stubs::gpdk))]
    #[cfg_attr(kani, kani::stub(crate::opaque::unmask_response, crate::verif_kani::w_stubs::unmask))]
    #[cfg_attr(kani, kani::stub(crate::envelope::Envelope::open, crate::envelope::Envelope::verif_open_stub))]
    fn w3c_login_finish_ke_args [unwind = 120] { login_finish_case(1, true, 3); }

    #[cfg_attr(kani, kani::stub(crate::opaque::get_password_derived_key, crate::verif_kani::w_stubs::gpdk))]
    #[cfg_attr(kani, kani::stub(crate::opaque::unmask_response, crate::verif_kani::w_stubs::unmask))]
    #[cfg_attr(kani, kani::stub(crate::envelope::Envelope::open, crate::envelope::Envelope::verif_open_stub))]
    fn w3e_login_finish_early [unwind = 120] { login_finish_early_case(); }
}
