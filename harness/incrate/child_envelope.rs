//! Harnesses on the module-private units of src/envelope.rs.
#![allow(dead_code, unsafe_code, missing_docs, unused_imports, static_mut_refs, clippy::all)]
include!("/verif/harness/common/macros.rs");
use super::*;
use crate::keypair::SecretKey as _;
use crate::verif_kani::harnesses;
use crate::verif_kani::model::*;
use crate::verif_kani::spec;
use crate::verif_kani::spec_prims as sp;
use crate::verif_kani::vk::*;

fn hkdf_of(rpwd: &[u8; 8]) -> Hkdf<MHash> {
    Hkdf::<MHash>::from_prk(rpwd).unwrap()
}

/// identities: presence flags x lengths 0/2 handled by concrete cases
fn ids_case<'a>(has_c: bool, c: &'a [u8], has_s: bool, s: &'a [u8]) -> Identifiers<'a> {
    Identifiers { client: if has_c { Some(c) } else { None }, server: if has_s { Some(s) } else { None } }
}

fn seal_case(has_c: bool, clen: usize, has_s: bool, slen: usize) {
    let rpwd = any_bytes::<8>();
    let spkv = any_u8();
    assume(spkv >= 1 && spkv <= 240);
    let idc = any_bytes::<2>();
    let ids = any_bytes::<2>();
    let mut tape = Tape::symbolic();
    let spk = PublicKey::<G241>::deserialize(&[PK_TAG, spkv]).unwrap();
    let r = Envelope::<M>::seal(&mut tape, hkdf_of(&rpwd), &spk, ids_case(has_c, &idc[..clen], has_s, &ids[..slen]));
    check!(r.is_ok(), "sealing succeeds");
    let Ok(res) = r else { return };
    let envb = res.0.serialize(); // nonce(32) | auth_tag(8)
    check!(tape.pos == 32 && eq_bytes(&envb[0..32], &tape.buf[0..32]), "envelope nonce is 32 fresh bytes from the caller's RNG");
    let spkb = [PK_TAG, spkv];
    let (csk, cpk, export) = spec::envelope_keys(&rpwd, &envb[0..32]);
    let id_s: &[u8] = if has_s { &ids[..slen] } else { &spkb };
    let id_u: &[u8] = if has_c { &idc[..clen] } else { &cpk };
    let e = spec::envelope(&rpwd, &envb[0..32], &spkb, id_s, id_u);
    check!(eq_bytes(&res.1.serialize(), &cpk), "client public key == DeriveDiffieHellmanKeyPair(Expand(randomized_pwd, nonce || PrivateKey))");
    check!(eq_bytes(&res.2, &export), "export key == Expand(randomized_pwd, nonce || ExportKey)");
    check!(eq_bytes(&envb[32..40], &e.auth_tag), "auth_tag == MAC(auth_key, nonce || server_pk || len||id_s || len||id_u) with defaulted identities");
    let _ = csk;
    cover!(true, "reached");
    core::mem::forget((res, spk));
}

fn open_case(has_c: bool, clen: usize, has_s: bool, slen: usize) {
    let rpwd = any_bytes::<8>();
    let spkv = any_u8();
    assume(spkv >= 1 && spkv <= 240);
    let idc = any_bytes::<2>();
    let ids = any_bytes::<2>();
    let envb = any_bytes::<40>();
    let spk = PublicKey::<G241>::deserialize(&[PK_TAG, spkv]).unwrap();
    let env = Envelope::<M>::deserialize(&envb).unwrap();
    let r = env.open(hkdf_of(&rpwd), spk, ids_case(has_c, &idc[..clen], has_s, &ids[..slen]));
    let spkb = [PK_TAG, spkv];
    let (csk, cpk, export) = spec::envelope_keys(&rpwd, &envb[0..32]);
    let id_s: &[u8] = if has_s { &ids[..slen] } else { &spkb };
    let id_u: &[u8] = if has_c { &idc[..clen] } else { &cpk };
    let e = spec::envelope(&rpwd, &envb[0..32], &spkb, id_s, id_u);
    let tag_ok = eq_bytes(&envb[32..40], &e.auth_tag);
    match r {
        Ok(o) => {
            check!(tag_ok, "envelope opens only if its tag is the MAC over nonce, server key and both identities");
            check!(o.client_static_keypair.private().serialize()[0] == csk, "recovered client private key per RFC 9807 4.1.3");
            check!(eq_bytes(&o.client_static_keypair.public().serialize(), &cpk), "recovered client public key");
            check!(eq_bytes(&o.export_key, &export), "export key at open == export key at seal (same formula)");
            // the identities handed on to the key exchange are the effective ones
            {
                let mut it = o.id_u.iter();
                let (p, v) = (it.next(), it.next());
                check!(p.map(|x| x.len() == 2 && x[1] as usize == id_u.len()) == Some(true) && v.map(|x| eq_bytes(x, id_u)) == Some(true), "effective client identity handed on");
            }
            {
                let mut it = o.id_s.iter();
                let (p, v) = (it.next(), it.next());
                check!(p.map(|x| x.len() == 2 && x[1] as usize == id_s.len()) == Some(true) && v.map(|x| eq_bytes(x, id_s)) == Some(true), "effective server identity handed on");
            }
            cover!(true, "opened");
            core::mem::forget(o);
        }
        Err(err) => {
            check!(!tag_ok, "an envelope with the right tag opens");
            check!(matches!(err, ProtocolError::LibraryError(InternalError::SealOpenHmacError)), "tag mismatch is reported as the seal-open error");
            cover!(true, "rejected");
        }
    }
    core::mem::forget(env);
}

harnesses! {
    fn s9_seal_default_ids [unwind = 46] { seal_case(false, 0, false, 0); }
    fn s9_seal_explicit_ids [unwind = 46] { seal_case(true, 2, true, 1); }
    fn s9_seal_mixed_ids [unwind = 46] { seal_case(false, 0, true, 0); }
    fn s9_open_default_ids [unwind = 46] { open_case(false, 0, false, 0); }
    fn s9_open_explicit_ids [unwind = 46] { open_case(true, 2, true, 1); }
    fn s9_open_mixed_ids [unwind = 46] { open_case(true, 0, false, 0); }
}
