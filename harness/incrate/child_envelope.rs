//! Harnesses on the module-private units of src/envelope.rs.
#![allow(dead_code, unsafe_code, missing_docs, unused_imports, static_mut_refs, clippy::all)]
include!("/verif/harness/common/macros.rs");
use super::*;
use crate::keypair::SecretKey as _;
use crate::verif_kani::harnesses;
use crate::verif_kani::model::*;
use crate::verif_kani::spec;
use crate::verif_kani::spec_prims as sp;
use crate::verif_kani::vk::*;

// Stubs with the same generic structure as the inherent methods they replace in the wiring harnesses (Kani's stub
// type check compares the impl-level parameter `CS`): they delegate to the reference stubs in w_stubs.rs.
impl<CS: CipherSuite> Envelope<CS> {
    #[allow(clippy::type_complexity)]
    pub(crate) fn verif_seal_stub<R: RngCore + CryptoRng>(
        rng: &mut R,
        randomized_pwd_hasher: Hkdf<OprfHash<CS>>,
        server_s_pk: &PublicKey<CS::KeGroup>,
        ids: Identifiers,
    ) -> Result<SealResult<CS>, ProtocolError> {
        crate::verif_kani::w_stubs::seal::<CS, R>(rng, randomized_pwd_hasher, server_s_pk, ids)
    }

    /// reference stub for `seal_raw` (≡ by s9_seal_raw): tag and export key from the remembered randomized password
    #[allow(clippy::type_complexity)]
    pub(crate) fn verif_seal_raw_stub<'a>(
        _randomized_pwd_hasher: Hkdf<OprfHash<CS>>,
        nonce: GenericArray<u8, NonceLen>,
        aad: impl Iterator<Item = &'a [u8]>,
        mode: InnerEnvelopeMode,
    ) -> Result<SealRawResult<CS>, InternalError> {
        let rpwd = unsafe { crate::verif_kani::w_stubs::LAST_RPWD };
        let mut buf = [0u8; 48];
        let n = drain_aad(aad, &mut buf);
        let auth_key = sp::hkdf_expand8(&rpwd, &[&nonce, b"AuthKey"]);
        let export = sp::hkdf_expand8(&rpwd, &[&nonce, b"ExportKey"]);
        let tag = sp::hmac(&auth_key, &[&nonce, &buf[..n]]);
        Ok((Self { mode, nonce, hmac: GenericArray::clone_from_slice(&tag) }, GenericArray::clone_from_slice(&export)))
    }

    /// reference stub for `open_raw` (≡ by s9_open_raw_exact)
    pub(crate) fn verif_open_raw_stub<'a>(
        &self,
        _randomized_pwd_hasher: Hkdf<OprfHash<CS>>,
        aad: impl Iterator<Item = &'a [u8]>,
    ) -> Result<OpenedInnerEnvelope<CS>, InternalError> {
        let rpwd = unsafe { crate::verif_kani::w_stubs::LAST_RPWD };
        let mut buf = [0u8; 48];
        let n = drain_aad(aad, &mut buf);
        let auth_key = sp::hkdf_expand8(&rpwd, &[&self.nonce, b"AuthKey"]);
        let export = sp::hkdf_expand8(&rpwd, &[&self.nonce, b"ExportKey"]);
        let tag = sp::hmac(&auth_key, &[&self.nonce, &buf[..n]]);
        if !eq_bytes(&tag, &self.hmac) {
            return Err(InternalError::SealOpenHmacError);
        }
        Ok(OpenedInnerEnvelope { export_key: GenericArray::clone_from_slice(&export) })
    }

    /// nonce || auth_tag without the `serialize()` where-clauses
    pub(crate) fn to_bytes_for_verif(&self) -> [u8; 40] {
        let mut out = [0u8; 40];
        crate::verif_kani::vk::put(&mut out[..32], &self.nonce);
        crate::verif_kani::vk::put(&mut out[32..], &self.hmac[..8]);
        out
    }

    pub(crate) fn verif_open_stub<'a>(
        &self,
        randomized_pwd_hasher: Hkdf<OprfHash<CS>>,
        server_s_pk: PublicKey<CS::KeGroup>,
        optional_ids: Identifiers<'a>,
    ) -> Result<OpenedEnvelope<'a, CS>, ProtocolError> {
        crate::verif_kani::w_stubs::open::<CS>(self, randomized_pwd_hasher, server_s_pk, optional_ids)
    }
}

/// concatenate at most 8 parts of associated data (the real callers pass 5)
fn drain_aad<'a>(aad: impl Iterator<Item = &'a [u8]>, buf: &mut [u8; 48]) -> usize {
    let mut it = aad;
    let mut n = 0usize;
    let mut parts = 0;
    while parts < 8 {
        match it.next() {
            Some(p) => {
                let mut i = 0;
                while i < p.len() {
                    if n < 48 {
                        buf[n] = p[i];
                        n += 1;
                    }
                    i += 1;
                }
            }
            None => break,
        }
        parts += 1;
    }
    n
}

/// reference stubs for the two key-recovery helpers (≡ by s9_keys_internal)
pub(crate) fn stub_build_inner<CS: CipherSuite>(_h: Hkdf<OprfHash<CS>>, nonce: GenericArray<u8, NonceLen>) -> Result<PublicKey<CS::KeGroup>, ProtocolError> {
    let rpwd = unsafe { crate::verif_kani::w_stubs::LAST_RPWD };
    let (_, cpk, _) = spec::envelope_keys(&rpwd, &nonce);
    Ok(PublicKey::deserialize(&cpk)?)
}
pub(crate) fn stub_recover_keys<CS: CipherSuite>(_h: Hkdf<OprfHash<CS>>, nonce: GenericArray<u8, NonceLen>) -> Result<KeyPair<CS::KeGroup>, ProtocolError> {
    let rpwd = unsafe { crate::verif_kani::w_stubs::LAST_RPWD };
    let (csk, _, _) = spec::envelope_keys(&rpwd, &nonce);
    KeyPair::<CS::KeGroup>::from_private_key_slice(&[csk])
}

fn hkdf_of(rpwd: &[u8; 8]) -> Hkdf<MHash> {
    Hkdf::<MHash>::from_prk(rpwd).unwrap()
}

/// identities: presence flags x lengths 0/2 handled by concrete cases
fn ids_case<'a>(has_c: bool, c: &'a [u8], has_s: bool, s: &'a [u8]) -> Identifiers<'a> {
    Identifiers { client: if has_c { Some(c) } else { None }, server: if has_s { Some(s) } else { None } }
}

fn seal_case(has_c: bool, clen: usize, has_s: bool, slen: usize) {
    let rpwd = any_bytes::<8>();
    let spkv = any_u8();
    assume(spkv >= 1 && spkv <= 240);
    let idc = any_bytes::<20>();
    let ids = any_bytes::<9>();
    let mut tape = Tape::symbolic();
    let spk = PublicKey::<G241>::deserialize(&[PK_TAG, spkv]).unwrap();
    unsafe { crate::verif_kani::w_stubs::LAST_RPWD = rpwd };
    let r = Envelope::<M>::seal(&mut tape, hkdf_of(&rpwd), &spk, ids_case(has_c, &idc[..clen], has_s, &ids[..slen]));
    check!(r.is_ok(), "sealing succeeds");
    let Ok(res) = r else { return };
    let envb = res.0.serialize(); // nonce(32) | auth_tag(8)
    check!(tape.pos == 32 && eq_bytes(&envb[0..32], &tape.buf[0..32]), "envelope nonce is 32 fresh bytes from the caller's RNG");
    let spkb = [PK_TAG, spkv];
    let (csk, cpk, export) = spec::envelope_keys(&rpwd, &envb[0..32]);
    let id_s: &[u8] = if has_s { &ids[..slen] } else { &spkb };
    let id_u: &[u8] = if has_c { &idc[..clen] } else { &cpk };
    let e = spec::envelope(&rpwd, &envb[0..32], &spkb, id_s, id_u);
    check!(eq_bytes(&res.1.serialize(), &cpk), "client public key == DeriveDiffieHellmanKeyPair(Expand(randomized_pwd, nonce || PrivateKey))");
    check!(eq_bytes(&res.2, &export), "export key == Expand(randomized_pwd, nonce || ExportKey)");
    check!(eq_bytes(&envb[32..40], &e.auth_tag), "auth_tag == MAC(auth_key, nonce || server_pk || len||id_s || len||id_u) with defaulted identities");
    let _ = csk;
    cover!(true, "reached");
    core::mem::forget((res, spk));
}

fn open_case(has_c: bool, clen: usize, has_s: bool, slen: usize) {
    let rpwd = any_bytes::<8>();
    let spkv = any_u8();
    assume(spkv >= 1 && spkv <= 240);
    let idc = any_bytes::<20>();
    let ids = any_bytes::<9>();
    let envb = any_bytes::<40>();
    let spk = PublicKey::<G241>::deserialize(&[PK_TAG, spkv]).unwrap();
    let env = Envelope::<M>::deserialize(&envb).unwrap();
    unsafe { crate::verif_kani::w_stubs::LAST_RPWD = rpwd };
    let r = env.open(hkdf_of(&rpwd), spk, ids_case(has_c, &idc[..clen], has_s, &ids[..slen]));
    let spkb = [PK_TAG, spkv];
    let (csk, cpk, export) = spec::envelope_keys(&rpwd, &envb[0..32]);
    let id_s: &[u8] = if has_s { &ids[..slen] } else { &spkb };
    let id_u: &[u8] = if has_c { &idc[..clen] } else { &cpk };
    let e = spec::envelope(&rpwd, &envb[0..32], &spkb, id_s, id_u);
    let tag_ok = eq_bytes(&envb[32..40], &e.auth_tag);
    match r {
        Ok(o) => {
            check!(tag_ok, "envelope opens only if its tag is the MAC over nonce, server key and both identities");
            check!(o.client_static_keypair.private().serialize()[0] == csk, "recovered client private key per RFC 9807 4.1.3");
            check!(eq_bytes(&o.client_static_keypair.public().serialize(), &cpk), "recovered client public key");
            check!(eq_bytes(&o.export_key, &export), "export key at open == export key at seal (same formula)");
            // the identities handed on to the key exchange are the effective ones
            {
                let mut it = o.id_u.iter();
                let (p, v) = (it.next(), it.next());
                check!(p.map(|x| x.len() == 2 && x[1] as usize == id_u.len()) == Some(true) && v.map(|x| eq_bytes(x, id_u)) == Some(true), "effective client identity handed on");
            }
            {
                let mut it = o.id_s.iter();
                let (p, v) = (it.next(), it.next());
                check!(p.map(|x| x.len() == 2 && x[1] as usize == id_s.len()) == Some(true) && v.map(|x| eq_bytes(x, id_s)) == Some(true), "effective server identity handed on");
            }
            cover!(true, "opened");
            core::mem::forget(o);
        }
        Err(err) => {
            check!(!tag_ok, "an envelope with the right tag opens");
            check!(matches!(err, ProtocolError::LibraryError(InternalError::SealOpenHmacError)), "tag mismatch is reported as the seal-open error");
            cover!(true, "rejected");
        }
    }
    core::mem::forget(env);
}

harnesses! {
    fn s9_seal_default_ids [unwind = 46] { seal_case(false, 0, false, 0); }
    fn s9_seal_explicit_ids [unwind = 46] { seal_case(true, 2, true, 1); }
    fn s9_seal_mixed_ids [unwind = 46] { seal_case(false, 0, true, 0); }
    fn s9_open_default_ids [unwind = 46] { open_case(false, 0, false, 0); }
    fn s9_open_explicit_ids [unwind = 46] { open_case(true, 2, true, 1); }
    fn s9_open_mixed_ids [unwind = 46] { open_case(true, 0, false, 0); }

    /// S9 (quick): open_raw is exact — Ok <=> stored tag == MAC(Expand(rpwd, nonce||AuthKey), nonce || aad); export key formula
    fn s9_open_raw_exact [unwind = 46] {
        let rpwd = any_bytes::<8>();
        let envb = any_bytes::<40>();
        let aad1 = any_bytes::<2>();
        let aad2 = any_bytes::<3>();
        let env = Envelope::<M>::deserialize(&envb).unwrap();
        let r = env.open_raw(hkdf_of(&rpwd), [&aad1[..], &aad2[..]].into_iter());
        let auth_key = sp::hkdf_expand8(&rpwd, &[&envb[0..32], b"AuthKey"]);
        let tag = sp::hmac(&auth_key, &[&envb[0..32], &aad1, &aad2]);
        let tag_ok = eq_bytes(&tag, &envb[32..40]);
        match r {
            Ok(o) => {
                check!(tag_ok, "envelope opens only if its tag is the MAC over nonce and associated data");
                check!(eq_bytes(&o.export_key, &sp::hkdf_expand8(&rpwd, &[&envb[0..32], b"ExportKey"])), "export key == Expand(randomized_pwd, nonce || ExportKey)");
                cover!(true, "opened");
            }
            Err(e) => {
                check!(!tag_ok, "an envelope with the right tag opens");
                check!(matches!(e, InternalError::SealOpenHmacError), "tag mismatch is the seal-open error");
                cover!(true, "rejected");
            }
        }
        core::mem::forget(env);
    }

    /// S9 (quick): seal_raw: tag and export key formulas (same as open_raw's)
    fn s9_seal_raw [unwind = 46] {
        let rpwd = any_bytes::<8>();
        let nonce = any_bytes::<32>();
        let aad1 = any_bytes::<2>();
        let aad2 = any_bytes::<3>();
        let r = Envelope::<M>::seal_raw(hkdf_of(&rpwd), GenericArray::clone_from_slice(&nonce), [&aad1[..], &aad2[..]].into_iter(), InnerEnvelopeMode::Internal);
        check!(r.is_ok(), "sealing succeeds");
        if let Ok(res) = r {
            let envb = res.0.serialize();
            let auth_key = sp::hkdf_expand8(&rpwd, &[&nonce, b"AuthKey"]);
            check!(eq_bytes(&envb[0..32], &nonce), "envelope carries the nonce");
            check!(eq_bytes(&envb[32..40], &sp::hmac(&auth_key, &[&nonce, &aad1, &aad2])), "auth_tag == MAC(Expand(randomized_pwd, nonce||AuthKey), nonce || aad)");
            check!(eq_bytes(&res.1, &sp::hkdf_expand8(&rpwd, &[&nonce, b"ExportKey"])), "export key == Expand(randomized_pwd, nonce || ExportKey)");
            cover!(true, "reached");
            core::mem::forget(res);
        }
    }

    /// S9 (quick): construct_aad orders the associated data as server_public_key || id_s || id_u
    fn s9_construct_aad_order [unwind = 12] {
        let a = any_bytes::<2>();
        let b = any_bytes::<3>();
        let c = any_bytes::<2>();
        let mut it = construct_aad([&a[..]].into_iter(), [&b[..]].into_iter(), &c);
        let (x, y, z, end) = (it.next(), it.next(), it.next(), it.next());
        check!(x.map(|s| eq_bytes(s, &c)) == Some(true), "server public key first");
        check!(y.map(|s| eq_bytes(s, &b)) == Some(true), "then the server identity");
        check!(z.map(|s| eq_bytes(s, &a)) == Some(true), "then the client identity");
        check!(end.is_none(), "nothing else");
        cover!(true, "reached");
    }

    /// S9: the two key-recovery helpers: client key pair = DeriveDiffieHellmanKeyPair(Expand(randomized_pwd, nonce || "PrivateKey"))
    fn s9_keys_internal [unwind = 46] {
        let rpwd = any_bytes::<8>();
        let nonce = any_bytes::<32>();
        let (csk, cpk, _) = spec::envelope_keys(&rpwd, &nonce);
        let pk = build_inner_envelope_internal::<M>(hkdf_of(&rpwd), GenericArray::clone_from_slice(&nonce));
        check!(pk.is_ok(), "client public key is derived");
        if let Ok(pk) = pk {
            check!(eq_bytes(&pk.serialize(), &cpk), "client public key per RFC 9807 4.1.2");
            core::mem::forget(pk);
        }
        let kp = recover_keys_internal::<M>(hkdf_of(&rpwd), GenericArray::clone_from_slice(&nonce));
        check!(kp.is_ok(), "client key pair is recovered");
        if let Ok(kp) = kp {
            check!(kp.private().serialize()[0] == csk && eq_bytes(&kp.public().serialize(), &cpk), "client key pair per RFC 9807 4.1.3 (same derivation as at registration)");
            cover!(true, "reached");
            core::mem::forget(kp);
        }
    }

    // wiring of seal/open: the helpers replaced by their reference stubs (≡ by s9_keys_internal, s9_seal_raw, s9_open_raw_exact)
    #[cfg_attr(kani, kani::stub(crate::envelope::build_inner_envelope_internal, crate::envelope::verif_kani_envelope::stub_build_inner))]
    #[cfg_attr(kani, kani::stub(crate::envelope::Envelope::seal_raw, crate::envelope::Envelope::verif_seal_raw_stub))]
    fn s9w_seal_default_ids [unwind = 46] { seal_case(false, 0, false, 0); }
    #[cfg_attr(kani, kani::stub(crate::envelope::build_inner_envelope_internal, crate::envelope::verif_kani_envelope::stub_build_inner))]
    #[cfg_attr(kani, kani::stub(crate::envelope::Envelope::seal_raw, crate::envelope::Envelope::verif_seal_raw_stub))]
    fn s9w_seal_explicit_ids [unwind = 46] { seal_case(true, 2, true, 1); }
    #[cfg_attr(kani, kani::stub(crate::envelope::build_inner_envelope_internal, crate::envelope::verif_kani_envelope::stub_build_inner))]
    #[cfg_attr(kani, kani::stub(crate::envelope::Envelope::seal_raw, crate::envelope::Envelope::verif_seal_raw_stub))]
    fn s9w_seal_server_only [unwind = 46] { seal_case(false, 0, true, 0); }
    #[cfg_attr(kani, kani::stub(crate::envelope::build_inner_envelope_internal, crate::envelope::verif_kani_envelope::stub_build_inner))]
    #[cfg_attr(kani, kani::stub(crate::envelope::Envelope::seal_raw, crate::envelope::Envelope::verif_seal_raw_stub))]
    fn s9w_seal_client_only [unwind = 46] { seal_case(true, 1, false, 0); }
    #[cfg_attr(kani, kani::stub(crate::envelope::build_inner_envelope_internal, crate::envelope::verif_kani_envelope::stub_build_inner))]
    #[cfg_attr(kani, kani::stub(crate::envelope::Envelope::seal_raw, crate::envelope::Envelope::verif_seal_raw_stub))]
    fn s9w_seal_long_ids [unwind = 46] { seal_case(true, 20, true, 9); }
    #[cfg_attr(kani, kani::stub(crate::envelope::recover_keys_internal, crate::envelope::verif_kani_envelope::stub_recover_keys))]
    #[cfg_attr(kani, kani::stub(crate::envelope::Envelope::open_raw, crate::envelope::Envelope::verif_open_raw_stub))]
    fn s9w_open_long_ids [unwind = 46] { open_case(true, 20, true, 9); }
    #[cfg_attr(kani, kani::stub(crate::envelope::recover_keys_internal, crate::envelope::verif_kani_envelope::stub_recover_keys))]
    #[cfg_attr(kani, kani::stub(crate::envelope::Envelope::open_raw, crate::envelope::Envelope::verif_open_raw_stub))]
    fn s9w_open_default_ids [unwind = 46] { open_case(false, 0, false, 0); }
    #[cfg_attr(kani, kani::stub(crate::envelope::recover_keys_internal, crate::envelope::verif_kani_envelope::stub_recover_keys))]
    #[cfg_attr(kani, kani::stub(crate::envelope::Envelope::open_raw, crate::envelope::Envelope::verif_open_raw_stub))]
    fn s9w_open_explicit_ids [unwind = 46] { open_case(true, 2, true, 1); }
    #[cfg_attr(kani, kani::stub(crate::envelope::recover_keys_internal, crate::envelope::verif_kani_envelope::stub_recover_keys))]
    #[cfg_attr(kani, kani::stub(crate::envelope::Envelope::open_raw, crate::envelope::Envelope::verif_open_raw_stub))]
    fn s9w_open_client_empty [unwind = 46] { open_case(true, 0, false, 0); }
    #[cfg_attr(kani, kani::stub(crate::envelope::recover_keys_internal, crate::envelope::verif_kani_envelope::stub_recover_keys))]
    #[cfg_attr(kani, kani::stub(crate::envelope::Envelope::open_raw, crate::envelope::Envelope::verif_open_raw_stub))]
    fn s9w_open_server_only [unwind = 46] { open_case(false, 0, true, 2); }
}
