//! Harnesses on the module-private units of src/envelope.rs.
#![allow(dead_code, unsafe_code, missing_docs, unused_imports, static_mut_refs, clippy::all)]
include!("/verif/harness/common/macros.rs");
use super::*;
use crate::verif_kani::harnesses;
use crate::verif_kani::model::*;
use crate::verif_kani::spec;
use crate::verif_kani::spec_prims as sp;
use crate::verif_kani::vk::*;

harnesses! {
    fn env_placeholder [unwind = 4] { cover!(true, "reached"); }
}
