//! S14 — the generic `KeGroup::derive_auth_keypair` counter loop (src/key_exchange/group/mod.rs:66-100) on a scripted
//! group whose hash_to_scalar yields zero for the first K calls: the loop must retry with counter 1, 2, ..., hand
//! exactly `seed || I2OSP(33,2) || "OPAQUE-DeriveDiffieHellmanKeyPair" || counter` and the DST
//! `"DeriveKeyPair" || "OPRFV1-" || 0x00 || "-" || ID` to the group, return the first non-zero scalar, and give up with
//! an error after 256 attempts (RFC 9497 §3.2.1 DeriveKeyPair shape, RFC 9807 §2.1).
use digest::core_api::BlockSizeUser;
use digest::{FixedOutput, HashMarker};
use generic_array::typenum::{IsLess, IsLessOrEqual, U1, U2, U256};
use generic_array::GenericArray;
use rand::{CryptoRng, RngCore};
use subtle::Choice;

use super::model::*;
use super::vk::*;
use crate::errors::InternalError;
use crate::key_exchange::group::KeGroup;

static mut ZEROS_FIRST: usize = 0;
static mut CALLS: usize = 0;
static mut LAST_IN: [u8; 48] = [0; 48];
static mut LAST_IN_LEN: usize = 0;
static mut LAST_DST: [u8; 48] = [0; 48];
static mut LAST_DST_LEN: usize = 0;

fn cat(parts: &[&[u8]], buf: &mut [u8; 48]) -> usize {
    let mut n = 0;
    let mut p = 0;
    while p < parts.len() {
        let mut i = 0;
        while i < parts[p].len() {
            if n < 48 {
                buf[n] = parts[p][i];
                n += 1;
            }
            i += 1;
        }
        p += 1;
    }
    n
}

pub struct GScript;
impl KeGroup for GScript {
    type Pk = Pk241;
    type PkLen = U2;
    type Sk = Sk241;
    type SkLen = U1;
    fn serialize_pk(pk: Self::Pk) -> GenericArray<u8, U2> {
        G241::serialize_pk(pk)
    }
    fn deserialize_pk(b: &[u8]) -> Result<Self::Pk, InternalError> {
        G241::deserialize_pk(b)
    }
    fn random_sk<R: RngCore + CryptoRng>(rng: &mut R) -> Self::Sk {
        G241::random_sk(rng)
    }
    fn hash_to_scalar<H>(input: &[&[u8]], dst: &[&[u8]]) -> Result<Self::Sk, InternalError>
    where
        H: BlockSizeUser + Default + FixedOutput + HashMarker,
        H::OutputSize: IsLess<U256> + IsLessOrEqual<H::BlockSize>,
    {
        unsafe {
            CALLS += 1;
            LAST_IN_LEN = cat(input, &mut LAST_IN);
            LAST_DST_LEN = cat(dst, &mut LAST_DST);
            if CALLS <= ZEROS_FIRST {
                Ok(Sk241(0))
            } else {
                Ok(Sk241(77))
            }
        }
    }
    fn is_zero_scalar(s: Self::Sk) -> Choice {
        G241::is_zero_scalar(s)
    }
    fn public_key(sk: Self::Sk) -> Self::Pk {
        G241::public_key(sk)
    }
    fn diffie_hellman(pk: Self::Pk, sk: Self::Sk) -> GenericArray<u8, U2> {
        G241::diffie_hellman(pk, sk)
    }
    fn serialize_sk(sk: Self::Sk) -> GenericArray<u8, U1> {
        G241::serialize_sk(sk)
    }
    fn deserialize_sk(b: &[u8]) -> Result<Self::Sk, InternalError> {
        G241::deserialize_sk(b)
    }
}

harnesses! {
    fn s14_derive_auth_keypair_loop [unwind = 260] {
        derive_loop_case(0);
        derive_loop_case(2);
        derive_loop_case(256);
    }
}

/// k = number of leading zero scalars (concrete per call: a symbolic k makes CBMC unroll all 256 iterations for every case)
fn derive_loop_case(k: usize) {
    {
        let seed = any_u8();
        unsafe {
            ZEROS_FIRST = k;
            CALLS = 0;
        }
        let r = GScript::derive_auth_keypair::<MOprf>(GenericArray::from([seed]));
        let calls = unsafe { CALLS };
        match r {
            Ok(sk) => {
                check!(k <= 255, "derivation gives up after 256 zero scalars");
                check!(sk.0 == 77 && calls == k + 1, "the first non-zero scalar is returned");
                unsafe {
                    let want_info = b"OPAQUE-DeriveDiffieHellmanKeyPair";
                    check!(LAST_IN_LEN == 1 + 2 + 33 + 1, "input = seed || I2OSP(len(info),2) || info || counter");
                    check!(LAST_IN[0] == seed && LAST_IN[1] == 0 && LAST_IN[2] == 33 && eq_bytes(&LAST_IN[3..36], want_info), "seed, info length and info as in DeriveKeyPair");
                    check!(LAST_IN[36] as usize == k, "the counter of the successful attempt is k");
                    let want_dst = b"DeriveKeyPairOPRFV1-\x00-M251-MH";
                    check!(LAST_DST_LEN == want_dst.len() && eq_bytes(&LAST_DST[..LAST_DST_LEN], want_dst), "DST = DeriveKeyPair || contextString of the OPRF suite (mode 0)");
                }
                cover!(k == 0, "first attempt");
                cover!(k == 2, "third attempt");
            }
            Err(_) => {
                check!(k >= 256, "a non-zero scalar within 256 attempts is accepted");
                check!(calls == 256, "exactly 256 attempts are made");
                cover!(true, "gives up");
            }
        }
    }
}
