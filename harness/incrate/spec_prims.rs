//! Reference primitives, written from the RFCs (2104 HMAC, 5869 HKDF) in plain loop style over fixed
//! buffers and the *same uninterpreted compression function* as the model hash — no generic-array,
//! no block-buffer, no iterator adapters. `lemma_*` harnesses (h_lemmas.rs) show that `SH` equals
//! `MHash` (through the real `digest` plumbing) and `hmac`/`hkdf_*` equal the `hmac`/`hkdf` crates
//! on it, so they can serve as the oracle for the real code.
#![allow(dead_code, missing_docs)]

use super::model::{mix, NB, NH};
use super::vk::put;

#[derive(Clone)]
pub struct SH {
    st: u64,
    buf: [u8; NB],
    pos: usize,
    nblocks: u64,
}

#[inline(always)]
fn rd(b: &[u8; NB], o: usize) -> u64 {
    u64::from_le_bytes([b[o], b[o + 1], b[o + 2], b[o + 3], b[o + 4], b[o + 5], b[o + 6], b[o + 7]])
}

impl SH {
    pub fn new() -> Self {
        Self {
            st: 0x6a09_e667_f3bc_c908,
            buf: [0; NB],
            pos: 0,
            nblocks: 0,
        }
    }
    pub fn update(&mut self, data: &[u8]) {
        let mut i = 0;
        while i < data.len() {
            self.buf[self.pos] = data[i];
            self.pos += 1;
            if self.pos == NB {
                self.st = mix(self.st, rd(&self.buf, 0), rd(&self.buf, 8));
                self.nblocks += 1;
                self.pos = 0;
            }
            i += 1;
        }
    }
    pub fn chain(mut self, data: &[u8]) -> Self {
        self.update(data);
        self
    }
    pub fn finalize(mut self) -> [u8; NH] {
        let total = self.nblocks * (NB as u64) + self.pos as u64;
        let pos = self.pos;
        self.buf[pos] = 0x80;
        let mut i = pos + 1;
        while i < NB {
            self.buf[i] = 0;
            i += 1;
        }
        let suffix = total.to_le_bytes();
        if NB - pos - 1 < 8 {
            self.st = mix(self.st, rd(&self.buf, 0), rd(&self.buf, 8));
            let mut block = [0u8; NB];
            put(&mut block[NB - 8..], &suffix);
            self.st = mix(self.st, rd(&block, 0), rd(&block, 8));
        } else {
            put(&mut self.buf[NB - 8..], &suffix);
            self.st = mix(self.st, rd(&self.buf, 0), rd(&self.buf, 8));
        }
        self.st.to_le_bytes()
    }
}

pub fn hash(parts: &[&[u8]]) -> [u8; NH] {
    let mut h = SH::new();
    let mut i = 0;
    while i < parts.len() {
        h.update(parts[i]);
        i += 1;
    }
    h.finalize()
}

/// RFC 2104
pub fn hmac(key: &[u8], parts: &[&[u8]]) -> [u8; NH] {
    let mut k0 = [0u8; NB];
    if key.len() > NB {
        let hk = hash(&[key]);
        put(&mut k0[..NH], &hk);
    } else {
        let mut i = 0;
        while i < key.len() {
            k0[i] = key[i];
            i += 1;
        }
    }
    let mut ipad = [0u8; NB];
    let mut opad = [0u8; NB];
    let mut i = 0;
    while i < NB {
        ipad[i] = k0[i] ^ 0x36;
        opad[i] = k0[i] ^ 0x5c;
        i += 1;
    }
    let mut h = SH::new();
    h.update(&ipad);
    let mut i = 0;
    while i < parts.len() {
        h.update(parts[i]);
        i += 1;
    }
    let inner = h.finalize();
    let mut o = SH::new();
    o.update(&opad);
    o.update(&inner);
    o.finalize()
}

/// RFC 5869 §2.2; `salt == None` means a string of HashLen zeros
pub fn hkdf_extract(salt: Option<&[u8]>, ikm_parts: &[&[u8]]) -> [u8; NH] {
    let zeros = [0u8; NH];
    hmac(salt.unwrap_or(&zeros), ikm_parts)
}

/// RFC 5869 §2.3; writes `okm.len()` bytes
pub fn hkdf_expand(prk: &[u8], info_parts: &[&[u8]], okm: &mut [u8]) {
    let mut prev = [0u8; NH];
    let mut have_prev = false;
    let mut done = 0;
    let mut counter: u8 = 1;
    while done < okm.len() {
        // T(i) = HMAC(prk, T(i-1) ‖ info ‖ i)
        let mut k0 = [0u8; NB];
        let mut i = 0;
        while i < prk.len() && i < NB {
            k0[i] = prk[i];
            i += 1;
        }
        let mut ipad = [0u8; NB];
        let mut opad = [0u8; NB];
        let mut i = 0;
        while i < NB {
            ipad[i] = k0[i] ^ 0x36;
            opad[i] = k0[i] ^ 0x5c;
            i += 1;
        }
        let mut h = SH::new();
        h.update(&ipad);
        if have_prev {
            h.update(&prev);
        }
        let mut i = 0;
        while i < info_parts.len() {
            h.update(info_parts[i]);
            i += 1;
        }
        h.update(&[counter]);
        let inner = h.finalize();
        let mut o = SH::new();
        o.update(&opad);
        o.update(&inner);
        let t = o.finalize();
        let mut i = 0;
        while i < NH && done < okm.len() {
            okm[done] = t[i];
            done += 1;
            i += 1;
        }
        prev = t;
        have_prev = true;
        counter = counter.wrapping_add(1);
    }
}

pub fn hkdf_expand8(prk: &[u8], info_parts: &[&[u8]]) -> [u8; NH] {
    let mut out = [0u8; NH];
    hkdf_expand(prk, info_parts, &mut out);
    out
}

/// I2OSP(x, 2)
pub fn i2osp2(x: usize) -> [u8; 2] {
    [(x >> 8) as u8, x as u8]
}
