//! D — decoders of suite M (DESIGN.md §3.1): D-strict, D-valid, D-round in one statement per decoder:
//!
//!   deserialize(input) is Ok  <=>  input.len() == L  &&  every group-element / scalar field is valid,
//!   and then serialize(decoded) == input.
//!
//! Lengths are concrete per case (a symbolic slice length makes every copy loop run to the unwind bound),
//! contents are symbolic. Layouts are typed in from RFC 9807 §4-§6 / the crate's documented state layouts.
use super::model::*;
use super::vk::*;
use crate::{
    ClientLogin, ClientRegistration, CredentialFinalization, CredentialRequest, CredentialResponse,
    RegistrationRequest, RegistrationResponse, RegistrationUpload, ServerLogin, ServerRegistration, ServerSetup,
};

pub fn v_elem(b: u8) -> bool {
    b >= 1 && b <= 250
}
pub fn v_scalar(b: u8) -> bool {
    b >= 1 && b <= 250
}
pub fn v_pk(b: &[u8]) -> bool {
    b[0] == PK_TAG && b[1] >= 1 && b[1] <= 240
}
pub fn v_sk(b: u8) -> bool {
    b >= 1 && b <= 240
}

pub const L_REG_REQ: usize = 1;
pub const L_REG_RESP: usize = 3;
pub const L_REG_UPLOAD: usize = 50;
pub const L_CRED_REQ: usize = 35;
pub const L_CRED_RESP: usize = 117;
pub const L_CRED_FIN: usize = 8;
pub const L_SETUP: usize = 10;
pub const L_SETUP_XK: usize = 11;
pub const L_CLIENT_REG: usize = 2;
pub const L_CLIENT_LOGIN: usize = 69;
pub const L_SERVER_LOGIN: usize = 24;

#[inline(always)]
fn verdict<T, E>(input: &[u8], l: usize, valid: bool, r: Result<T, E>, reenc: impl FnOnce(&T) -> bool) {
    let expect_ok = input.len() == l && valid;
    match r {
        Ok(x) => {
            check!(expect_ok, "decoder accepts only the exact length with all fields valid");
            check!(reenc(&x), "decoded value re-encodes to the input");
            cover!(true, "ok");
            core::mem::forget(x);
        }
        Err(e) => {
            check!(!expect_ok, "every well-formed encoding decodes");
            cover!(true, "err");
            core::mem::forget(e);
        }
    }
}

fn reg_req(i: &[u8]) {
    let valid = i.len() >= 1 && v_elem(i[0]);
    verdict(i, L_REG_REQ, valid, RegistrationRequest::<M>::deserialize(i), |x| eq_bytes(&x.serialize(), i));
}
fn reg_resp(i: &[u8]) {
    let valid = i.len() >= 3 && v_elem(i[0]) && v_pk(&i[1..3]);
    verdict(i, L_REG_RESP, valid, RegistrationResponse::<M>::deserialize(i), |x| eq_bytes(&x.serialize(), i));
}
fn reg_upload(i: &[u8]) {
    let valid = i.len() >= 2 && v_pk(&i[0..2]);
    verdict(i, L_REG_UPLOAD, valid, RegistrationUpload::<M>::deserialize(i), |x| eq_bytes(&x.serialize(), i));
}
fn server_registration(i: &[u8]) {
    let valid = i.len() >= 2 && v_pk(&i[0..2]);
    verdict(i, L_REG_UPLOAD, valid, ServerRegistration::<M>::deserialize(i), |x| eq_bytes(&x.serialize(), i));
}
fn cred_req(i: &[u8]) {
    let valid = i.len() >= 35 && v_elem(i[0]) && v_pk(&i[33..35]);
    verdict(i, L_CRED_REQ, valid, CredentialRequest::<M>::deserialize(i), |x| eq_bytes(&x.serialize(), i));
}
fn cred_resp(i: &[u8]) {
    let valid = i.len() >= 109 && v_elem(i[0]) && v_pk(&i[107..109]);
    verdict(i, L_CRED_RESP, valid, CredentialResponse::<M>::deserialize(i), |x| eq_bytes(&x.serialize(), i));
}
fn cred_fin(i: &[u8]) {
    verdict(i, L_CRED_FIN, true, CredentialFinalization::<M>::deserialize(i), |x| eq_bytes(&x.serialize(), i));
}
fn setup(i: &[u8]) {
    let valid = i.len() >= 10 && v_sk(i[8]) && v_sk(i[9]);
    verdict(i, L_SETUP, valid, ServerSetup::<M>::deserialize(i), |x| eq_bytes(&x.serialize(), i));
}
fn setup_xk(i: &[u8]) {
    let valid = i.len() >= 11 && i[8] == 0xe7 && v_sk(i[9]) && v_sk(i[10]);
    xk_reset(0, 0);
    verdict(i, L_SETUP_XK, valid, ServerSetup::<M, MSecretKey>::deserialize(i), |x| eq_bytes(&x.serialize(), i));
}
fn client_reg(i: &[u8]) {
    let valid = i.len() >= 2 && v_scalar(i[0]) && v_elem(i[1]);
    verdict(i, L_CLIENT_REG, valid, ClientRegistration::<M>::deserialize(i), |x| eq_bytes(&x.serialize(), i));
}
fn client_login(i: &[u8]) {
    let valid = i.len() >= 37 && v_scalar(i[0]) && v_elem(i[1]) && v_pk(&i[34..36]) && v_sk(i[36]);
    verdict(i, L_CLIENT_LOGIN, valid, ClientLogin::<M>::deserialize(i), |x| eq_bytes(&x.serialize(), i));
}
fn server_login(i: &[u8]) {
    verdict(i, L_SERVER_LOGIN, true, ServerLogin::<M>::deserialize(i), |x| eq_bytes(&x.serialize(), i));
}

/// quick: lengths 0, L-1, L, L+1; thorough harnesses sweep 0..=L+64
fn around<const N: usize>(l: usize, f: fn(&[u8])) {
    let buf = any_bytes::<N>();
    f(&buf[..0]);
    if l >= 1 {
        f(&buf[..l - 1]);
    }
    f(&buf[..l]);
    f(&buf[..l + 1]);
}

/// the window L-8..=L+8 plus 0, 1, 2, L+32, L+64 (for the large decoders, where a sweep over every length exhausted memory
/// during symbolic execution)
fn window<const N: usize>(l: usize, f: fn(&[u8])) {
    let buf = any_bytes::<N>();
    f(&buf[..0]);
    f(&buf[..1]);
    f(&buf[..2]);
    let mut len = l - 8;
    while len <= l + 8 {
        f(&buf[..len]);
        len += 1;
    }
    f(&buf[..l + 32]);
    f(&buf[..l + 64]);
}

fn sweep<const N: usize>(from: usize, to: usize, f: fn(&[u8])) {
    let buf = any_bytes::<N>();
    let mut len = from;
    while len <= to {
        f(&buf[..len]);
        len += 1;
    }
}

harnesses! {
    fn d_reg_req [unwind = 8] { around::<2>(L_REG_REQ, reg_req); }
    fn d_reg_resp [unwind = 8] { around::<4>(L_REG_RESP, reg_resp); }
    fn d_reg_upload [unwind = 54] { around::<51>(L_REG_UPLOAD, reg_upload); }
    fn d_server_registration [unwind = 54] { around::<51>(L_REG_UPLOAD, server_registration); }
    fn d_cred_req [unwind = 40] { around::<36>(L_CRED_REQ, cred_req); }
    fn d_cred_resp [unwind = 122] { around::<118>(L_CRED_RESP, cred_resp); }
    fn d_cred_fin [unwind = 12] { around::<9>(L_CRED_FIN, cred_fin); }
    fn d_setup [unwind = 14] { around::<11>(L_SETUP, setup); }
    fn d_setup_xk [unwind = 16] { around::<12>(L_SETUP_XK, setup_xk); }
    fn d_client_reg [unwind = 8] { around::<3>(L_CLIENT_REG, client_reg); }
    fn d_client_login [unwind = 74] { around::<70>(L_CLIENT_LOGIN, client_login); }
    fn d_server_login [unwind = 30] { around::<25>(L_SERVER_LOGIN, server_login); }

    // thorough: every length 0..=L+64
    fn d_all_reg_req [unwind = 70] { sweep::<65>(0, 65, reg_req); }
    fn d_all_reg_resp [unwind = 72] { sweep::<67>(0, 67, reg_resp); }
    fn d_win_reg_upload [unwind = 120] { window::<114>(L_REG_UPLOAD, reg_upload); }
    fn d_win_cred_req [unwind = 104] { window::<99>(L_CRED_REQ, cred_req); }
    fn d_win_cred_resp [unwind = 186] { window::<181>(L_CRED_RESP, cred_resp); }
    fn d_all_cred_fin [unwind = 78] { sweep::<72>(0, 72, cred_fin); }
    fn d_all_setup [unwind = 80] { sweep::<74>(0, 74, setup); }
    fn d_all_setup_xk [unwind = 80] { sweep::<75>(0, 75, setup_xk); }
    fn d_all_client_reg [unwind = 72] { sweep::<66>(0, 66, client_reg); }
    fn d_win_client_login [unwind = 138] { window::<133>(L_CLIENT_LOGIN, client_login); }
    fn d_all_server_login [unwind = 94] { sweep::<88>(0, 88, server_login); }
}
