//! D — decoders of suite M (DESIGN.md §3.1)
use super::model::*;
use super::vk::*;
use crate::{CredentialFinalization, ServerLogin};

harnesses! {
    fn d_strict_credential_finalization [unwind = 80] {
        let buf = any_bytes::<72>();
        let len = any_usize();
        assume(len <= 72);
        let r = CredentialFinalization::<M>::deserialize(&buf[..len]);
        match r {
            Ok(x) => {
                check!(len == 8, "only the exact length decodes");
                check!(eq_bytes(&x.serialize(), &buf[..len]), "re-encodes to the input");
                cover!(true, "ok");
            }
            Err(_) => { check!(len != 8, "every string of the exact length decodes"); cover!(true, "err"); }
        }
    }
}
