//! Reference model of OPAQUE-3DH (RFC 9807) over OPRF mode 0 (RFC 9497), written from the RFC text for the
//! sizes of suite M. Plain loops over fixed arrays; every hash goes through `spec_prims` (same uninterpreted
//! compression function as the model hash, so "equal for every interpretation" == "same bytes absorbed").
//!
//! Section numbers refer to RFC 9807 unless stated otherwise.
#![allow(dead_code, missing_docs)]

use super::model::{addmod, invmod, mulmod, GEN2, NH, NN, NPK, P1, P2, PK_TAG};
use super::spec_prims::{self as sp, i2osp2, SH};

// --- labels, typed in from the RFCs -----------------------------------------------------------------
pub const OPRF_ID: &[u8] = b"M251-MH"; // the suite identifier of the model OPRF suite
pub const L_OPRFV1: &[u8] = b"OPRFV1-"; // RFC 9497 §3.1 contextString = "OPRFV1-" || I2OSP(mode,1) || "-" || identifier
pub const L_HASH_TO_GROUP: &[u8] = b"HashToGroup-";
pub const L_DERIVE_KEY_PAIR: &[u8] = b"DeriveKeyPair";
pub const L_FINALIZE: &[u8] = b"Finalize";
pub const L_OPRF_KEY: &[u8] = b"OprfKey";
pub const L_OPAQUE_DERIVE_KEY_PAIR: &[u8] = b"OPAQUE-DeriveKeyPair";
pub const L_OPAQUE_DERIVE_DH_KEY_PAIR: &[u8] = b"OPAQUE-DeriveDiffieHellmanKeyPair";
pub const L_MASKING_KEY: &[u8] = b"MaskingKey";
pub const L_AUTH_KEY: &[u8] = b"AuthKey";
pub const L_EXPORT_KEY: &[u8] = b"ExportKey";
pub const L_PRIVATE_KEY: &[u8] = b"PrivateKey";
pub const L_PAD: &[u8] = b"CredentialResponsePad";
pub const L_OPAQUEV1: &[u8] = b"OPAQUEv1-";
pub const L_OPAQUE: &[u8] = b"OPAQUE-";
pub const L_HANDSHAKE_SECRET: &[u8] = b"HandshakeSecret";
pub const L_SESSION_KEY: &[u8] = b"SessionKey";
pub const L_SERVER_MAC: &[u8] = b"ServerMAC";
pub const L_CLIENT_MAC: &[u8] = b"ClientMAC";

pub const ENV_LEN: usize = NN + NH; // envelope = nonce || auth_tag
pub const MASKED_LEN: usize = NPK + ENV_LEN; // masked_response
pub const KE1_LEN: usize = 1 + NN + NPK; // blinded || client_nonce || client_keyshare
pub const RESP_HEAD_LEN: usize = 1 + NN + MASKED_LEN; // evaluated || masking_nonce || masked_response

// --- the model groups' hash-to-X, restated (the real trait impls are in model.rs) -----------------------
// digest = H(tag || I2OSP(len(input),2) || input || I2OSP(len(dst),2) || dst); first byte mapped into the range.
fn h2x(tag: u8, input: &[&[u8]], dst: &[&[u8]]) -> u8 {
    let mut h = SH::new();
    h.update(&[tag]);
    let mut n = 0usize;
    let mut i = 0;
    while i < input.len() {
        n += input[i].len();
        i += 1;
    }
    h.update(&i2osp2(n));
    let mut i = 0;
    while i < input.len() {
        h.update(input[i]);
        i += 1;
    }
    let mut n = 0usize;
    let mut i = 0;
    while i < dst.len() {
        n += dst[i].len();
        i += 1;
    }
    h.update(&i2osp2(n));
    let mut i = 0;
    while i < dst.len() {
        h.update(dst[i]);
        i += 1;
    }
    h.finalize()[0]
}
pub fn oprf_hash_to_group(input: &[&[u8]], dst: &[&[u8]]) -> u8 {
    1 + h2x(0xc1, input, dst) % 250
}
pub fn oprf_hash_to_scalar(input: &[&[u8]], dst: &[&[u8]]) -> u8 {
    1 + h2x(0xc2, input, dst) % 250
}
pub fn ke_hash_to_scalar(input: &[&[u8]], dst: &[&[u8]]) -> u8 {
    1 + h2x(0xc3, input, dst) % 240
}

// --- RFC 9497 (mode 0x00) -----------------------------------------------------------------------------
/// HashToGroup(x) with DST = "HashToGroup-" || contextString
pub fn oprf_h2g(pw: &[u8]) -> u8 {
    oprf_hash_to_group(&[pw], &[L_HASH_TO_GROUP, L_OPRFV1, &[0u8], b"-", OPRF_ID])
}
/// Blind: blindedElement = blind * HashToGroup(input)
pub fn oprf_blind(pw: &[u8], blind: u8) -> u8 {
    mulmod(oprf_h2g(pw), blind, P1)
}
/// BlindEvaluate: evaluatedElement = skS * blindedElement
pub fn oprf_evaluate(k: u8, blinded: u8) -> u8 {
    mulmod(blinded, k, P1)
}
/// Finalize: Hash(I2OSP(len(input),2) || input || I2OSP(len(unblinded),2) || unblinded || "Finalize")
pub fn oprf_finalize(pw: &[u8], blind: u8, evaluated: u8) -> [u8; NH] {
    let n = mulmod(evaluated, invmod(blind, P1), P1);
    sp::hash(&[&i2osp2(pw.len()), pw, &i2osp2(1), &[n], L_FINALIZE])
}
/// DeriveKeyPair(seed, info) (RFC 9497 §3.2.1): counter 0 always succeeds in the model group
pub fn oprf_derive_key(seed: &[u8], info: &[u8]) -> u8 {
    oprf_hash_to_scalar(&[seed, &i2osp2(info.len()), info, &[0u8]], &[L_DERIVE_KEY_PAIR, L_OPRFV1, &[0u8], b"-", OPRF_ID])
}

// --- §6.3.2.1 / §6.4.3: per-credential OPRF key -------------------------------------------------------
/// seed = Expand(oprf_seed, credential_identifier || "OprfKey", Nok); (oprf_key, _) = DeriveKeyPair(seed, "OPAQUE-DeriveKeyPair")
pub fn oprf_key_for(oprf_seed: &[u8], cred_id: &[u8]) -> u8 {
    let mut seed = [0u8; 1];
    sp::hkdf_expand(oprf_seed, &[cred_id, L_OPRF_KEY], &mut seed);
    oprf_derive_key(&seed, L_OPAQUE_DERIVE_KEY_PAIR)
}

// --- §6.3.2.2 / §6.4.2.2: randomized password, masking key ----------------------------------------------
/// randomized_password = Extract("", concat(oprf_output, Stretch(oprf_output)))
pub fn randomized_pwd(oprf_output: &[u8], stretched: &[u8]) -> [u8; NH] {
    sp::hkdf_extract(None, &[oprf_output, stretched])
}
pub fn masking_key(rpwd: &[u8]) -> [u8; NH] {
    sp::hkdf_expand8(rpwd, &[L_MASKING_KEY])
}

// --- §4.1.2/§4.1.3 envelope ----------------------------------------------------------------------------
/// DeriveDiffieHellmanKeyPair(seed) (§2.1): the OPRF suite's DeriveKeyPair shape over the KE group,
/// info = "OPAQUE-DeriveDiffieHellmanKeyPair". Returns the private key; public = 7 * sk mod 241.
pub fn derive_dh_keypair(seed: &[u8]) -> u8 {
    ke_hash_to_scalar(
        &[seed, &i2osp2(L_OPAQUE_DERIVE_DH_KEY_PAIR.len()), L_OPAQUE_DERIVE_DH_KEY_PAIR, &[0u8]],
        &[L_DERIVE_KEY_PAIR, L_OPRFV1, &[0u8], b"-", OPRF_ID],
    )
}
pub fn ke_public(sk: u8) -> [u8; NPK] {
    [PK_TAG, mulmod(GEN2, sk, P2)]
}
pub fn ke_dh(sk: u8, pk: &[u8]) -> [u8; NPK] {
    [PK_TAG, mulmod(pk[1], sk, P2)]
}

pub struct Envelope {
    pub client_sk: u8,
    pub client_pk: [u8; NPK],
    pub auth_tag: [u8; NH],
    pub export_key: [u8; NH],
}
/// Store / Recover share everything but the comparison: given randomized_pwd, nonce, server public key and the
/// *effective* identities (already defaulted by the caller per §4.1: absent identity = that party's public key)
pub fn envelope(rpwd: &[u8], nonce: &[u8], server_pk: &[u8], id_s: &[u8], id_u: &[u8]) -> Envelope {
    let auth_key = sp::hkdf_expand8(rpwd, &[nonce, L_AUTH_KEY]);
    let export_key = sp::hkdf_expand8(rpwd, &[nonce, L_EXPORT_KEY]);
    let mut seed = [0u8; 1];
    sp::hkdf_expand(rpwd, &[nonce, L_PRIVATE_KEY], &mut seed);
    let client_sk = derive_dh_keypair(&seed);
    let client_pk = ke_public(client_sk);
    // cleartext_credentials = server_public_key || I2OSP(len(id_s),2) || id_s || I2OSP(len(id_u),2) || id_u
    let auth_tag = sp::hmac(&auth_key, &[nonce, server_pk, &i2osp2(id_s.len()), id_s, &i2osp2(id_u.len()), id_u]);
    Envelope { client_sk, client_pk, auth_tag, export_key }
}
/// the part of `envelope` that does not depend on the identities (client key pair and export key)
pub fn envelope_keys(rpwd: &[u8], nonce: &[u8]) -> (u8, [u8; NPK], [u8; NH]) {
    let export_key = sp::hkdf_expand8(rpwd, &[nonce, L_EXPORT_KEY]);
    let mut seed = [0u8; 1];
    sp::hkdf_expand(rpwd, &[nonce, L_PRIVATE_KEY], &mut seed);
    let client_sk = derive_dh_keypair(&seed);
    (client_sk, ke_public(client_sk), export_key)
}

// --- §6.3.2.2 credential response pad -----------------------------------------------------------------
/// masked_response = Expand(masking_key, masking_nonce || "CredentialResponsePad", Npk+Nn+Nm) XOR (server_pk || envelope)
pub fn mask(masking_key: &[u8], masking_nonce: &[u8], server_pk: &[u8], env_nonce: &[u8], env_tag: &[u8]) -> [u8; MASKED_LEN] {
    let mut pad = [0u8; MASKED_LEN];
    sp::hkdf_expand(masking_key, &[masking_nonce, L_PAD], &mut pad);
    let mut i = 0;
    while i < NPK {
        pad[i] ^= server_pk[i];
        i += 1;
    }
    let mut i = 0;
    while i < NN {
        pad[NPK + i] ^= env_nonce[i];
        i += 1;
    }
    let mut i = 0;
    while i < NH {
        pad[NPK + NN + i] ^= env_tag[i];
        i += 1;
    }
    pad
}
pub fn unmask(masking_key: &[u8], masking_nonce: &[u8], masked: &[u8]) -> [u8; MASKED_LEN] {
    let mut pad = [0u8; MASKED_LEN];
    sp::hkdf_expand(masking_key, &[masking_nonce, L_PAD], &mut pad);
    let mut i = 0;
    while i < MASKED_LEN {
        pad[i] ^= masked[i];
        i += 1;
    }
    pad
}

// --- §6.4.2 3DH -----------------------------------------------------------------------------------------
/// Hash(preamble) and Hash(preamble || server_mac) share the prefix; returns the running hash after the preamble
/// preamble = "OPAQUEv1-" || I2OSP(len(context),2) || context || I2OSP(len(id_u),2) || id_u || ke1 ||
///            I2OSP(len(id_s),2) || id_s || credential_response || server_nonce || server_public_keyshare
pub fn preamble(context: &[u8], id_u: &[u8], ke1: &[u8], id_s: &[u8], resp_head: &[u8], server_nonce: &[u8], server_e_pk: &[u8]) -> SH {
    SH::new()
        .chain(L_OPAQUEV1)
        .chain(&i2osp2(context.len()))
        .chain(context)
        .chain(&i2osp2(id_u.len()))
        .chain(id_u)
        .chain(ke1)
        .chain(&i2osp2(id_s.len()))
        .chain(id_s)
        .chain(resp_head)
        .chain(server_nonce)
        .chain(server_e_pk)
}

/// Expand-Label(Secret, Label, Context, Nx) = Expand(Secret, I2OSP(Nx,2) || I2OSP(len("OPAQUE-"||Label),1) || "OPAQUE-" || Label || I2OSP(len(Context),1) || Context, Nx)
pub fn expand_label(secret: &[u8], label: &[u8], context: &[u8]) -> [u8; NH] {
    sp::hkdf_expand8(
        secret,
        &[&i2osp2(NH), &[(L_OPAQUE.len() + label.len()) as u8], L_OPAQUE, label, &[context.len() as u8], context],
    )
}

pub struct Keys {
    pub session_key: [u8; NH],
    pub km2: [u8; NH],
    pub km3: [u8; NH],
}
/// DeriveKeys(ikm, preamble): prk = Extract("", ikm); handshake_secret / session_key = Derive-Secret(prk, .., Hash(preamble));
/// Km2/Km3 = Derive-Secret(handshake_secret, "ServerMAC"/"ClientMAC", "")
pub fn derive_keys(dh1: &[u8], dh2: &[u8], dh3: &[u8], preamble_hash: &[u8]) -> Keys {
    let prk = sp::hkdf_extract(None, &[dh1, dh2, dh3]);
    let handshake_secret = expand_label(&prk, L_HANDSHAKE_SECRET, preamble_hash);
    let session_key = expand_label(&prk, L_SESSION_KEY, preamble_hash);
    let km2 = expand_label(&handshake_secret, L_SERVER_MAC, b"");
    let km3 = expand_label(&handshake_secret, L_CLIENT_MAC, b"");
    Keys { session_key, km2, km3 }
}

pub struct ServerKe {
    pub server_mac: [u8; NH],
    pub expected_client_mac: [u8; NH],
    pub transcript2: [u8; NH], // Hash(preamble || server_mac)
    pub session_key: [u8; NH],
    pub km3: [u8; NH],
}
/// AuthServerRespond (§6.4.4): dh1 = server_e_sk*client_e_pk, dh2 = server_s_sk*client_e_pk, dh3 = server_e_sk*client_s_pk
pub fn server_ke(pre: SH, server_e_sk: u8, server_s_sk: u8, client_e_pk: &[u8], client_s_pk: &[u8]) -> ServerKe {
    let ph = pre.clone().finalize();
    let k = derive_keys(&ke_dh(server_e_sk, client_e_pk), &ke_dh(server_s_sk, client_e_pk), &ke_dh(server_e_sk, client_s_pk), &ph);
    let server_mac = sp::hmac(&k.km2, &[&ph]);
    let transcript2 = pre.chain(&server_mac).finalize();
    let expected_client_mac = sp::hmac(&k.km3, &[&transcript2]);
    ServerKe { server_mac, expected_client_mac, transcript2, session_key: k.session_key, km3: k.km3 }
}

pub struct ClientKe {
    pub expected_server_mac: [u8; NH],
    pub client_mac: [u8; NH],
    pub session_key: [u8; NH],
}
/// AuthClientFinalize (§6.4.3): dh1 = client_e_sk*server_e_pk, dh2 = client_e_sk*server_s_pk, dh3 = client_s_sk*server_e_pk;
/// the client MAC covers Hash(preamble || server_mac) with the *received* server MAC
pub fn client_ke(pre: SH, client_e_sk: u8, client_s_sk: u8, server_e_pk: &[u8], server_s_pk: &[u8], received_mac: &[u8]) -> ClientKe {
    let ph = pre.clone().finalize();
    let k = derive_keys(&ke_dh(client_e_sk, server_e_pk), &ke_dh(client_e_sk, server_s_pk), &ke_dh(client_s_sk, server_e_pk), &ph);
    let expected_server_mac = sp::hmac(&k.km2, &[&ph]);
    let transcript2 = pre.chain(received_mac).finalize();
    let client_mac = sp::hmac(&k.km3, &[&transcript2]);
    ClientKe { expected_server_mac, client_mac, session_key: k.session_key }
}
