//! Wiring harness support (DESIGN.md §3.4 rung 2, assume–guarantee):
//!
//! * reference stubs for the crate-private units — each computes, from the same arguments, what the unit's own
//!   harness (S6–S9) proves the real unit computes, so replacing the unit by its stub does not change the step's
//!   behaviour (and a counterexample replays natively, where no stub exists and the real units run);
//! * `MKe`, a recording model `KeyExchange`: the heavy 3DH computation is S10/S11's obligation; in a wiring harness
//!   the key exchange only records what it is given and returns harness-chosen (symbolic) results.
#![allow(dead_code, unsafe_code, missing_docs, unused_imports, static_mut_refs, clippy::all)]
use digest::{Output, OutputSizeUser};
use generic_array::typenum::{Sum, Unsigned, U2};
use generic_array::{ArrayLength, GenericArray};
use hkdf::Hkdf;
use rand::{CryptoRng, RngCore};

use super::model::*;
use super::spec;
use super::vk::*;
use crate::ciphersuite::{CipherSuite, OprfGroup, OprfHash};
use crate::envelope::{Envelope, OpenedEnvelope};
use crate::errors::{InternalError, ProtocolError};
use crate::hash::OutputSize;
use crate::key_exchange::group::KeGroup;
use crate::key_exchange::traits::{Deserialize, GenerateKe2Result, GenerateKe3Result, KeyExchange, Serialize};
use crate::key_exchange::tripledh::{Ke1Message, Ke1State, Ke2Message, Ke2State, Ke3Message, NonceLen, TripleDh};
use crate::keypair::{KeyPair, PrivateKey, PublicKey, SecretKey};
use crate::ksf::Ksf;
use crate::opaque::{bytestrings_from_identifiers, Identifiers, MaskedResponse, MaskedResponseLen};

/// side channel between the stubs: the HKDF context handed from `get_password_derived_key` to the envelope
/// functions is opaque; the stub remembers the randomized password it was keyed with
pub static mut LAST_RPWD: [u8; NH] = [0; NH];

pub fn gpdk<CS: CipherSuite>(
    input: &[u8],
    oprf_client: voprf::OprfClient<CS::OprfCs>,
    evaluation_element: voprf::EvaluationElement<CS::OprfCs>,
    ksf: Option<&CS::Ksf>,
) -> Result<(Output<OprfHash<CS>>, Hkdf<OprfHash<CS>>), ProtocolError> {
    if input.len() > 65535 {
        return Err(ProtocolError::from(voprf::Error::Input));
    }
    let blind = oprf_client.serialize()[0];
    let ev = evaluation_element.serialize()[0];
    let out = spec::oprf_finalize(input, blind, ev);
    let out_ga = Output::<OprfHash<CS>>::clone_from_slice(&out);
    let hardened = if let Some(k) = ksf { k.hash(out_ga.clone()) } else { CS::Ksf::default().hash(out_ga.clone()) }.map_err(ProtocolError::from)?;
    let rpwd = spec::randomized_pwd(&out, &hardened);
    unsafe {
        LAST_RPWD = rpwd;
    }
    let hk = Hkdf::<OprfHash<CS>>::from_prk(&rpwd).map_err(|_| InternalError::HkdfError)?;
    Ok((Output::<OprfHash<CS>>::clone_from_slice(&rpwd), hk))
}

pub fn oprf_key<CS: CipherSuite>(
    oprf_seed: &Output<OprfHash<CS>>,
    credential_identifier: &[u8],
) -> Result<GenericArray<u8, <OprfGroup<CS> as voprf::Group>::ScalarLen>, ProtocolError> {
    let k = spec::oprf_key_for(oprf_seed, credential_identifier);
    Ok(GenericArray::clone_from_slice(&[k]))
}

pub fn mask<CS: CipherSuite>(
    masking_key: &[u8],
    masking_nonce: &[u8],
    server_s_pk: &PublicKey<CS::KeGroup>,
    envelope: &Envelope<CS>,
) -> Result<MaskedResponse<CS>, ProtocolError>
where
    NonceLen: core::ops::Add<OutputSize<OprfHash<CS>>>,
    Sum<NonceLen, OutputSize<OprfHash<CS>>>: ArrayLength<u8> + core::ops::Add<<CS::KeGroup as KeGroup>::PkLen>,
    MaskedResponseLen<CS>: ArrayLength<u8>,
{
    let pk = server_s_pk.serialize();
    let env = envelope.serialize();
    let m = spec::mask(masking_key, masking_nonce, &pk, &env[0..NN], &env[NN..NN + NH]);
    Ok(MaskedResponse::deserialize(&m))
}

pub fn unmask<CS: CipherSuite>(
    masking_key: &[u8],
    masking_nonce: &[u8],
    masked_response: &MaskedResponse<CS>,
) -> Result<(PublicKey<CS::KeGroup>, Envelope<CS>), ProtocolError>
where
    NonceLen: core::ops::Add<OutputSize<OprfHash<CS>>>,
    Sum<NonceLen, OutputSize<OprfHash<CS>>>: ArrayLength<u8> + core::ops::Add<<CS::KeGroup as KeGroup>::PkLen>,
    MaskedResponseLen<CS>: ArrayLength<u8>,
{
    let masked = masked_response.serialize();
    let plain = spec::unmask(masking_key, masking_nonce, &masked);
    let pk = PublicKey::deserialize(&plain[..NPK]).map_err(|_| ProtocolError::SerializationError)?;
    let env = Envelope::deserialize(&plain[NPK..])?;
    Ok((pk, env))
}

pub fn seal<CS: CipherSuite, R: RngCore + CryptoRng>(
    rng: &mut R,
    _randomized_pwd_hasher: Hkdf<OprfHash<CS>>,
    server_s_pk: &PublicKey<CS::KeGroup>,
    ids: Identifiers,
) -> Result<(Envelope<CS>, PublicKey<CS::KeGroup>, Output<OprfHash<CS>>), ProtocolError> {
    let mut nonce = [0u8; NN];
    rng.fill_bytes(&mut nonce);
    let rpwd = unsafe { LAST_RPWD };
    let spk = server_s_pk.serialize();
    let (_, cpk, export) = spec::envelope_keys(&rpwd, &nonce);
    if ids.client.map(|c| c.len() > 65535) == Some(true) || ids.server.map(|c| c.len() > 65535) == Some(true) {
        return Err(ProtocolError::SerializationError);
    }
    let e = spec::envelope(&rpwd, &nonce, &spk, ids.server.unwrap_or(&spk), ids.client.unwrap_or(&cpk));
    let mut envb = [0u8; NN + NH];
    put(&mut envb[..NN], &nonce);
    put(&mut envb[NN..], &e.auth_tag);
    Ok((Envelope::deserialize(&envb)?, PublicKey::deserialize(&cpk)?, Output::<OprfHash<CS>>::clone_from_slice(&export)))
}

pub fn open<'a, CS: CipherSuite>(
    this: &Envelope<CS>,
    _randomized_pwd_hasher: Hkdf<OprfHash<CS>>,
    server_s_pk: PublicKey<CS::KeGroup>,
    optional_ids: Identifiers<'a>,
) -> Result<OpenedEnvelope<'a, CS>, ProtocolError> {
    let envb = this.to_bytes_for_verif();
    let rpwd = unsafe { LAST_RPWD };
    let spk = server_s_pk.serialize();
    let (csk, cpk, export) = spec::envelope_keys(&rpwd, &envb[..NN]);
    let client_static_keypair = KeyPair::<CS::KeGroup>::from_private_key_slice(&[csk])?;
    let (id_u, id_s) = bytestrings_from_identifiers::<CS::KeGroup>(optional_ids, GenericArray::clone_from_slice(&cpk), server_s_pk.serialize())?;
    let e = spec::envelope(&rpwd, &envb[..NN], &spk, optional_ids.server.unwrap_or(&spk), optional_ids.client.unwrap_or(&cpk));
    if !eq_bytes(&e.auth_tag, &envb[NN..NN + NH]) {
        return Err(InternalError::SealOpenHmacError.into());
    }
    Ok(OpenedEnvelope { client_static_keypair, export_key: Output::<OprfHash<CS>>::clone_from_slice(&export), id_u, id_s })
}

// ---------------------------------------------------------------------------------------------------
// recording key exchange
// ---------------------------------------------------------------------------------------------------

/// What the recording key exchange remembers of an `impl Iterator<Item = &[u8]>` argument: for the first six parts their
/// lengths and first four bytes, and whether there were more. (Copying whole parts byte by byte makes CBMC iterate every
/// inner loop to its bound for every candidate slice of the `Chain` state — 22 M SAT variables, out of memory; a fixed
/// number of `next()` calls with a 4-byte fingerprint each is enough to tell which objects were passed, in which order.)
#[derive(Clone, Copy)]
pub struct Parts {
    pub n: usize,
    pub len: [usize; 6],
    pub head: [[u8; 4]; 6],
    pub more: bool,
}
pub const NO_PARTS: Parts = Parts { n: 0, len: [0; 6], head: [[0; 4]; 6], more: false };

pub struct Rec {
    pub calls: usize,
    pub l1: Parts,
    pub l2: Parts,
    pub id_u: Parts,
    pub id_s: Parts,
    pub ctx: [u8; 8],
    pub ctx_len: usize,
    pub peer_pk: [u8; 2],   // client_s_pk (ke2) / server_s_pk (ke3)
    pub own_pk: [u8; 2],    // public key of the static secret passed in
    pub own_pk_ok: bool,
    pub ke1_msg: [u8; 34],  // ke2 only
    pub ke2_msg: [u8; 42],  // ke3 only
    pub ke1_state: [u8; 33], // ke3 only
    pub overflow: bool,
}
pub static mut REC: Rec = Rec {
    calls: 0, l1: NO_PARTS, l2: NO_PARTS, id_u: NO_PARTS, id_s: NO_PARTS,
    ctx: [0; 8], ctx_len: 0, peer_pk: [0; 2], own_pk: [0; 2], own_pk_ok: false, ke1_msg: [0; 34], ke2_msg: [0; 42], ke1_state: [0; 33], overflow: false,
};
/// what the recording key exchange answers: 0 = Ok, 1 = Err(InvalidLoginError), 2 = Err(LibraryError(HmacError))
pub static mut MKE_OUTCOME: u8 = 0;
pub static mut MKE_KE2_STATE: [u8; 24] = [0; 24];
pub static mut MKE_KE2_MSG: [u8; 42] = [0; 42];
pub static mut MKE_SESSION_KEY: [u8; 8] = [0; 8];
pub static mut MKE_KE3_MAC: [u8; 8] = [0; 8];

pub fn mke_reset(outcome: u8) {
    unsafe {
        REC.calls = 0;
        REC.l1 = NO_PARTS;
        REC.l2 = NO_PARTS;
        REC.id_u = NO_PARTS;
        REC.id_s = NO_PARTS;
        REC.ctx_len = 0;
        REC.overflow = false;
        REC.own_pk_ok = false;
        MKE_OUTCOME = outcome;
    }
}

#[inline(always)]
fn one_part(p: Option<&[u8]>, out: &mut Parts, k: usize) {
    if let Some(p) = p {
        out.n = k + 1;
        out.len[k] = p.len();
        if p.len() > 0 {
            out.head[k][0] = p[0];
        }
        if p.len() > 1 {
            out.head[k][1] = p[1];
        }
        if p.len() > 2 {
            out.head[k][2] = p[2];
        }
        if p.len() > 3 {
            out.head[k][3] = p[3];
        }
    }
}

/// six `next()` calls, no loop
fn fingerprint<'a>(it: impl Iterator<Item = &'a [u8]>) -> Parts {
    let mut it = it;
    let mut out = NO_PARTS;
    one_part(it.next(), &mut out, 0);
    one_part(it.next(), &mut out, 1);
    one_part(it.next(), &mut out, 2);
    one_part(it.next(), &mut out, 3);
    one_part(it.next(), &mut out, 4);
    one_part(it.next(), &mut out, 5);
    out.more = it.next().is_some();
    out
}

/// does `p` consist of exactly the given parts (length and first four bytes each)?
pub fn parts_are(p: &Parts, want: &[&[u8]]) -> bool {
    let mut ok = p.n == want.len() && !p.more;
    let mut k = 0;
    while k < want.len() && k < 6 {
        ok &= p.len[k] == want[k].len();
        let mut i = 0;
        while i < 4 && i < want[k].len() {
            ok &= p.head[k][i] == want[k][i];
            i += 1;
        }
        k += 1;
    }
    ok
}

fn copy_ctx(context: &[u8]) {
    unsafe {
        REC.ctx_len = context.len();
        let mut i = 0;
        while i < context.len() && i < 8 {
            REC.ctx[i] = context[i];
            i += 1;
        }
    }
}

pub struct MKe;

impl KeyExchange<MHash, G241> for MKe {
    type KE1State = Ke1State<G241>;
    type KE2State = Ke2State<MHash>;
    type KE1Message = Ke1Message<G241>;
    type KE2Message = Ke2Message<MHash, G241>;
    type KE3Message = Ke3Message<MHash>;

    fn generate_ke1<OprfCs: voprf::CipherSuite, R: RngCore + CryptoRng>(rng: &mut R) -> Result<(Self::KE1State, Self::KE1Message), ProtocolError> {
        <TripleDh as KeyExchange<MHash, G241>>::generate_ke1::<MOprf, R>(rng)
    }

    fn generate_ke2<'a, 'b, 'c, 'd, OprfCs: voprf::CipherSuite, R: RngCore + CryptoRng, S: SecretKey<G241>>(
        _rng: &mut R,
        l1_bytes: impl Iterator<Item = &'a [u8]>,
        l2_bytes: impl Iterator<Item = &'b [u8]>,
        ke1_message: Self::KE1Message,
        client_s_pk: PublicKey<G241>,
        server_s_sk: S,
        id_u: impl Iterator<Item = &'c [u8]>,
        id_s: impl Iterator<Item = &'d [u8]>,
        context: &[u8],
    ) -> Result<GenerateKe2Result<Self, MHash, G241>, ProtocolError<S::Error>> {
        unsafe {
            REC.calls += 1;
            REC.l1 = fingerprint(l1_bytes);
            REC.l2 = fingerprint(l2_bytes);
            REC.id_u = fingerprint(id_u);
            REC.id_s = fingerprint(id_s);
            copy_ctx(context);
            put(&mut REC.ke1_msg, &ke1_message.serialize());
            put(&mut REC.peer_pk, &client_s_pk.serialize());
            // the static Diffie-Hellman is the one operation asked of the server's key here (C18)
            let dh = server_s_sk.diffie_hellman(PublicKey::<G241>::deserialize(&[PK_TAG, GEN2]).map_err(InternalError::into_custom)?)?;
            put(&mut REC.own_pk, &dh); // DH with the generator == the key's public key
            REC.own_pk_ok = true;
            match MKE_OUTCOME {
                0 => Ok((
                    Ke2State::<MHash>::deserialize(&MKE_KE2_STATE).map_err(ProtocolError::into_custom)?,
                    Ke2Message::<MHash, G241>::deserialize(&MKE_KE2_MSG).map_err(ProtocolError::into_custom)?,
                )),
                1 => Err(ProtocolError::InvalidLoginError),
                _ => Err(ProtocolError::LibraryError(InternalError::HmacError)),
            }
        }
    }

    fn generate_ke3<'a, 'b, 'c, 'd>(
        l2_component: impl Iterator<Item = &'a [u8]>,
        ke2_message: Self::KE2Message,
        ke1_state: &Self::KE1State,
        serialized_credential_request: impl Iterator<Item = &'b [u8]>,
        server_s_pk: PublicKey<G241>,
        client_s_sk: PrivateKey<G241>,
        id_u: impl Iterator<Item = &'c [u8]>,
        id_s: impl Iterator<Item = &'d [u8]>,
        context: &[u8],
    ) -> Result<GenerateKe3Result<Self, MHash, G241>, ProtocolError> {
        unsafe {
            REC.calls += 1;
            REC.l1 = fingerprint(serialized_credential_request);
            REC.l2 = fingerprint(l2_component);
            REC.id_u = fingerprint(id_u);
            REC.id_s = fingerprint(id_s);
            copy_ctx(context);
            put(&mut REC.ke2_msg, &ke2_message.serialize());
            put(&mut REC.ke1_state, &ke1_state.serialize());
            put(&mut REC.peer_pk, &server_s_pk.serialize());
            REC.own_pk = spec::ke_public(client_s_sk.serialize()[0]);
            REC.own_pk_ok = true;
            match MKE_OUTCOME {
                0 => Ok((GenericArray::clone_from_slice(&MKE_SESSION_KEY), Ke3Message::<MHash>::deserialize(&MKE_KE3_MAC)?)),
                1 => Err(ProtocolError::InvalidLoginError),
                _ => Err(ProtocolError::LibraryError(InternalError::HmacError)),
            }
        }
    }

    fn finish_ke(ke3_message: Self::KE3Message, ke2_state: &Self::KE2State) -> Result<Output<MHash>, ProtocolError> {
        <TripleDh as KeyExchange<MHash, G241>>::finish_ke(ke3_message, ke2_state)
    }
}

/// suite M with the recording key exchange
pub struct MW;
impl CipherSuite for MW {
    type OprfCs = MOprf;
    type KeGroup = G241;
    type KeyExchange = MKe;
    type Ksf = MKsf;
}
