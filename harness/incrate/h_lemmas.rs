//! R3: the reference primitives equal the real `digest`/`hmac`/`hkdf` plumbing over the model hash.
//! These are statements about the oracle, not about opaque-ke.
use digest::Digest;
use hkdf::Hkdf;
use hmac::{Hmac, Mac};

use super::model::*;
use super::spec_prims as sp;
use super::vk::*;

fn hash_eq_len<const N: usize>() {
    let data = any_bytes::<N>();
    let a = sp::hash(&[&data[..]]);
    let b = MHash::new().chain_update(&data[..]).finalize();
    check!(eq_bytes(&a, &b), "spec hash == MHash");
    // split absorption gives the same digest
    if N >= 3 {
        let c = MHash::new().chain_update(&data[..N / 3]).chain_update(&data[N / 3..]).finalize();
        check!(eq_bytes(&a, &c), "MHash absorbs incrementally");
    }
}

fn hmac_eq_len<const N: usize>(split: usize) {
    let key = any_bytes::<8>();
    let m = any_bytes::<N>();
    let a = sp::hmac(&key, &[&m[..split], &m[split..]]);
    let mut mac = Hmac::<MHash>::new_from_slice(&key).unwrap();
    mac.update(&m[..split]);
    mac.update(&m[split..]);
    let b = mac.finalize().into_bytes();
    check!(eq_bytes(&a, &b), "spec hmac == hmac crate");
}

harnesses! {
    /// SH(x) == MHash(x) for every x of each of the lengths 0,1,7,8,15,16,17,24,33 (content symbolic)
    fn lemma_hash_eq [unwind = 36] {
        hash_eq_len::<0>();
        hash_eq_len::<1>();
        hash_eq_len::<7>();
        hash_eq_len::<8>();
        hash_eq_len::<15>();
        hash_eq_len::<16>();
        hash_eq_len::<17>();
        hash_eq_len::<24>();
        hash_eq_len::<33>();
        check!(!unsafe { UF_OVERFLOW }, "UF table large enough");
        cover!(true, "reached");
    }

    /// RFC 2104 HMAC == hmac crate, key 8 bytes, messages of 0, 8, 9, 24 bytes in two parts
    fn lemma_hmac_eq [unwind = 36] {
        hmac_eq_len::<0>(0);
        hmac_eq_len::<8>(3);
        hmac_eq_len::<9>(9);
        hmac_eq_len::<24>(8);
        check!(!unsafe { UF_OVERFLOW }, "UF table large enough");
        cover!(true, "reached");
    }

    /// RFC 5869 Expand == hkdf crate: prk 8 bytes, info 12 bytes, 20 output bytes (3 blocks)
    fn lemma_hkdf_eq [unwind = 36] {
        let prk = any_bytes::<8>();
        let info = any_bytes::<12>();
        let mut a = [0u8; 20];
        sp::hkdf_expand(&prk, &[&info[..5], &info[5..]], &mut a);
        let mut b = [0u8; 20];
        Hkdf::<MHash>::from_prk(&prk).unwrap().expand_multi_info(&[&info[..5], &info[5..]], &mut b).unwrap();
        check!(eq_bytes(&a, &b), "spec hkdf-expand == hkdf crate");
        let salt = any_bytes::<8>();
        let (prk2, _) = Hkdf::<MHash>::extract(Some(&salt), &info);
        check!(eq_bytes(&sp::hkdf_extract(Some(&salt), &[&info]), &prk2), "spec hkdf-extract == hkdf crate");
        let (prk3, _) = Hkdf::<MHash>::extract(None, &info);
        check!(eq_bytes(&sp::hkdf_extract(None, &[&info]), &prk3), "spec hkdf-extract(no salt) == hkdf crate");
        check!(!unsafe { UF_OVERFLOW }, "UF table large enough");
        cover!(true, "reached");
    }

    /// the credential-response pad: 42 bytes (6 blocks), info = 32-byte nonce || 21-byte label
    fn lemma_hkdf_pad42 [unwind = 46] {
        let prk = any_bytes::<8>();
        let nonce = any_bytes::<32>();
        let mut a = [0u8; 42];
        sp::hkdf_expand(&prk, &[&nonce, b"CredentialResponsePad"], &mut a);
        let mut b = [0u8; 42];
        Hkdf::<MHash>::from_prk(&prk).unwrap().expand_multi_info(&[&nonce, b"CredentialResponsePad"], &mut b).unwrap();
        check!(eq_bytes(&a, &b), "spec hkdf-expand == hkdf crate (42 bytes)");
        cover!(true, "reached");
    }

    /// Engine self-test: CBMC 6.11's library memcpy loses a byte when a copy spans the end of a nested struct of
    /// generic-array's tree layout (found with this harness: U42 40+2 and 39+3 failed). The driver therefore stubs
    /// <[u8]>::copy_from_slice by an element-wise loop (vk::elementwise_copy); this harness must pass for any verdict to be trusted.
    fn engine_selftest_ga_copy [unwind = 80] {
        use generic_array::typenum::{U42, U48, U3, U5, U6};
        use generic_array::GenericArray;
        let src = any_bytes::<48>();
        macro_rules! t { ($ty:ty, $o:expr, $k:expr, $m:literal) => {{
            let mut x = GenericArray::<u8, $ty>::default();
            x[$o..$o + $k].copy_from_slice(&src[..$k]);
            let mut ok = true;
            let mut i = 0;
            while i < $k { ok &= x[$o + i] == src[i]; i += 1; }
            check!(ok, $m);
        }}; }
        t!(U42, 40, 2, "U42 40+2");
        t!(U42, 41, 1, "U42 41+1");
        t!(U42, 39, 2, "U42 39+2");
        t!(U42, 39, 3, "U42 39+3");
        t!(U42, 32, 8, "U42 32+8");
        t!(U42, 20, 3, "U42 20+3");
        t!(U42, 19, 4, "U42 19+4");
        t!(U42, 0, 2, "U42 0+2");
        t!(U42, 1, 2, "U42 1+2");
        t!(U48, 40, 8, "U48 40+8");
        t!(U48, 46, 2, "U48 46+2");
        t!(U48, 23, 2, "U48 23+2");
        t!(U3, 0, 3, "U3 0+3");
        t!(U3, 1, 2, "U3 1+2");
        t!(U3, 0, 2, "U3 0+2");
        t!(U5, 3, 2, "U5 3+2");
        t!(U5, 4, 1, "U5 4+1");
        t!(U5, 2, 3, "U5 2+3");
        t!(U6, 4, 2, "U6 4+2");
        t!(U6, 2, 4, "U6 2+4");
        // tail copies of 8 bytes and more (library formulation)
        t!(U42, 34, 8, "U42 34+8");
        t!(U42, 33, 9, "U42 33+9");
        t!(U42, 30, 12, "U42 30+12");
        t!(U42, 21, 21, "U42 21+21");
        {
            use generic_array::typenum::{U35, U50, U75};
            t!(U35, 27, 8, "U35 27+8");
            t!(U35, 1, 34, "U35 1+34");
            t!(U50, 42, 8, "U50 42+8");
            t!(U50, 10, 40, "U50 10+40");
            t!(U75, 33, 42, "U75 33+42");
            t!(U75, 67, 8, "U75 67+8");
        }
        // the copy patterns HKDF-Expand produces in suite M
        t!(U42, 0, 8, "U42 0+8");
        t!(U42, 8, 8, "U42 8+8");
        t!(U42, 16, 8, "U42 16+8");
        t!(U42, 24, 8, "U42 24+8");
        {
            use generic_array::typenum::{U1, U8};
            t!(U8, 0, 8, "U8 0+8");
            t!(U1, 0, 1, "U1 0+1");
        }
        cover!(true, "reached");
    }
}
