//! R3: the reference primitives equal the real `digest`/`hmac`/`hkdf` plumbing over the model hash.
//! These are statements about the oracle, not about opaque-ke.
use digest::Digest;
use hkdf::Hkdf;
use hmac::{Hmac, Mac};

use super::model::*;
use super::spec_prims as sp;
use super::vk::*;

fn hash_eq_len<const N: usize>() {
    let data = any_bytes::<N>();
    let a = sp::hash(&[&data[..]]);
    let b = MHash::new().chain_update(&data[..]).finalize();
    check!(eq_bytes(&a, &b), "spec hash == MHash");
    // split absorption gives the same digest
    if N >= 3 {
        let c = MHash::new().chain_update(&data[..N / 3]).chain_update(&data[N / 3..]).finalize();
        check!(eq_bytes(&a, &c), "MHash absorbs incrementally");
    }
}

fn hmac_eq_len<const N: usize>(split: usize) {
    let key = any_bytes::<8>();
    let m = any_bytes::<N>();
    let a = sp::hmac(&key, &[&m[..split], &m[split..]]);
    let mut mac = Hmac::<MHash>::new_from_slice(&key).unwrap();
    mac.update(&m[..split]);
    mac.update(&m[split..]);
    let b = mac.finalize().into_bytes();
    check!(eq_bytes(&a, &b), "spec hmac == hmac crate");
}

harnesses! {
    /// SH(x) == MHash(x) for every x of each of the lengths 0,1,7,8,15,16,17,24,33 (content symbolic)
    fn lemma_hash_eq [unwind = 36] {
        hash_eq_len::<0>();
        hash_eq_len::<1>();
        hash_eq_len::<7>();
        hash_eq_len::<8>();
        hash_eq_len::<15>();
        hash_eq_len::<16>();
        hash_eq_len::<17>();
        hash_eq_len::<24>();
        hash_eq_len::<33>();
        check!(!unsafe { UF_OVERFLOW }, "UF table large enough");
        cover!(true, "reached");
    }

    /// RFC 2104 HMAC == hmac crate, key 8 bytes, messages of 0, 8, 9, 24 bytes in two parts
    fn lemma_hmac_eq [unwind = 36] {
        hmac_eq_len::<0>(0);
        hmac_eq_len::<8>(3);
        hmac_eq_len::<9>(9);
        hmac_eq_len::<24>(8);
        check!(!unsafe { UF_OVERFLOW }, "UF table large enough");
        cover!(true, "reached");
    }

    /// RFC 5869 Expand == hkdf crate: prk 8 bytes, info 12 bytes, 20 output bytes (3 blocks)
    fn lemma_hkdf_eq [unwind = 36] {
        let prk = any_bytes::<8>();
        let info = any_bytes::<12>();
        let mut a = [0u8; 20];
        sp::hkdf_expand(&prk, &[&info[..5], &info[5..]], &mut a);
        let mut b = [0u8; 20];
        Hkdf::<MHash>::from_prk(&prk).unwrap().expand_multi_info(&[&info[..5], &info[5..]], &mut b).unwrap();
        check!(eq_bytes(&a, &b), "spec hkdf-expand == hkdf crate");
        let salt = any_bytes::<8>();
        let (prk2, _) = Hkdf::<MHash>::extract(Some(&salt), &info);
        check!(eq_bytes(&sp::hkdf_extract(Some(&salt), &[&info]), &prk2), "spec hkdf-extract == hkdf crate");
        let (prk3, _) = Hkdf::<MHash>::extract(None, &info);
        check!(eq_bytes(&sp::hkdf_extract(None, &[&info]), &prk3), "spec hkdf-extract(no salt) == hkdf crate");
        check!(!unsafe { UF_OVERFLOW }, "UF table large enough");
        cover!(true, "reached");
    }
}
