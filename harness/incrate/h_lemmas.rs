//! R3: the reference primitives equal the real `digest`/`hmac`/`hkdf` plumbing over the model hash.
//! These are statements about the oracle, not about opaque-ke.
use digest::Digest;
use hkdf::Hkdf;
use hmac::{Hmac, Mac};

use super::model::*;
use super::spec;
use super::spec_prims as sp;
use super::spec_steps as ss;
use super::vk::*;

fn hash_eq_len<const N: usize>() {
    let data = any_bytes::<N>();
    let a = sp::hash(&[&data[..]]);
    let b = MHash::new().chain_update(&data[..]).finalize();
    check!(eq_bytes(&a, &b), "spec hash == MHash");
    // split absorption gives the same digest
    if N >= 3 {
        let c = MHash::new().chain_update(&data[..N / 3]).chain_update(&data[N / 3..]).finalize();
        check!(eq_bytes(&a, &c), "MHash absorbs incrementally");
    }
}

fn hmac_eq_len<const N: usize>(split: usize) {
    let key = any_bytes::<8>();
    let m = any_bytes::<N>();
    let a = sp::hmac(&key, &[&m[..split], &m[split..]]);
    let mut mac = Hmac::<MHash>::new_from_slice(&key).unwrap();
    mac.update(&m[..split]);
    mac.update(&m[split..]);
    let b = mac.finalize().into_bytes();
    check!(eq_bytes(&a, &b), "spec hmac == hmac crate");
}

/// R1 body; `has_c`: explicit 2-byte client identity (concrete per harness: a symbolic choice makes every later hash position symbolic)
fn honest_agreement_case(has_c: bool) {
        let pw = any_bytes::<2>();
        let cred = any_bytes::<2>();
        let seed = any_bytes::<8>();
        let s_sk = any_u8();
        let e_sk_c = any_u8();
        let e_sk_s = any_u8();
        assume(s_sk >= 1 && s_sk <= 240 && e_sk_c >= 1 && e_sk_c <= 240 && e_sk_s >= 1 && e_sk_s <= 240);
        let env_nonce = any_bytes::<32>();
        let masking_nonce = any_bytes::<32>();
        let nonce_c = any_bytes::<32>();
        let nonce_s = any_bytes::<32>();
        let idc = any_bytes::<2>();
        let ctx = any_bytes::<2>();
        let id_u: Option<&[u8]> = if has_c { Some(&idc[..]) } else { None };
        let id_s: Option<&[u8]> = None;
        let server_pk = spec::ke_public(s_sk);
        let k = spec::oprf_key_for(&seed, &cred);
        // registration
        let req1 = spec::oprf_blind(&pw, 3);
        let ev1 = spec::oprf_evaluate(k, req1);
        let reg = ss::reg_finish(&pw, 3, ev1, |o| *o, &server_pk, id_u, id_s, &env_nonce);
        // login: client request, server response
        let req2 = spec::oprf_blind(&pw, 5);
        let ev2 = spec::oprf_evaluate(k, req2);
        let client_e_pk = spec::ke_public(e_sk_c);
        let mut ke1 = [0u8; 35];
        ke1[0] = req2;
        put(&mut ke1[1..33], &nonce_c);
        put(&mut ke1[33..35], &client_e_pk);
        let masked = spec::mask(&reg.upload[2..10], &masking_nonce, &server_pk, &reg.upload[10..42], &reg.upload[42..50]);
        let mut head = [0u8; 75];
        head[0] = ev2;
        put(&mut head[1..33], &masking_nonce);
        put(&mut head[33..75], &masked);
        let client_pk = [reg.upload[0], reg.upload[1]];
        let eu: &[u8] = id_u.unwrap_or(&client_pk);
        let server_e_pk = spec::ke_public(e_sk_s);
        let pre_s = spec::preamble(&ctx, eu, &ke1, &server_pk, &head, &nonce_s, &server_e_pk);
        let srv = spec::server_ke(pre_s, e_sk_s, s_sk, &client_e_pk, &client_pk);
        // client finish
        let out = spec::oprf_finalize(&pw, 5, ev2);
        let rpwd = spec::randomized_pwd(&out, &out);
        check!(eq_bytes(&rpwd, &reg.rpwd), "same randomized password at registration and login (blinding cancels)");
        match ss::recover_credentials(&rpwd, &masking_nonce, &masked, id_u, id_s) {
            ss::Recovered::Ok { server_pk: spk, client_sk, client_pk: cpk, export_key } => {
                check!(eq_bytes(&spk, &server_pk), "client recovers the setup's public key");
                check!(eq_bytes(&export_key, &reg.export_key), "login export key == registration export key");
                check!(eq_bytes(&cpk, &client_pk), "client recovers its registered key pair");
                let pre_c = spec::preamble(&ctx, id_u.unwrap_or(&cpk), &ke1, &spk, &head, &nonce_s, &server_e_pk);
                let cl = spec::client_ke(pre_c, e_sk_c, client_sk, &server_e_pk, &spk, &srv.server_mac);
                check!(eq_bytes(&cl.expected_server_mac, &srv.server_mac), "client accepts the honest server MAC");
                check!(eq_bytes(&cl.client_mac, &srv.expected_client_mac), "server accepts the honest client MAC");
                check!(eq_bytes(&cl.session_key, &srv.session_key), "both sides derive the same session key");
                cover!(true, "agreement");
            }
            ss::Recovered::Invalid => { check!(false, "honest credential recovery succeeds"); }
        }
}

/// I2OSP(len,2)||x[..p1] || I2OSP(len,2)||x[p1..p2] || I2OSP(len,2)||x[p2..] for a 6-byte x
fn enc3(x: &[u8; 6], p1: usize, p2: usize, out: &mut [u8; 12]) {
    let mut n = 0;
    let bounds = [0, p1, p2, 6];
    let mut f = 0;
    while f < 3 {
        let l = bounds[f + 1] - bounds[f];
        out[n] = 0;
        out[n + 1] = l as u8;
        n += 2;
        let mut i = bounds[f];
        while i < bounds[f + 1] {
            out[n] = x[i];
            n += 1;
            i += 1;
        }
        f += 1;
    }
}

harnesses! {
    /// SH(x) == MHash(x) for every x of each of the lengths 0,1,7,8,15,16,17,24,33 (content symbolic)
    fn lemma_hash_eq [unwind = 36] {
        hash_eq_len::<0>();
        hash_eq_len::<1>();
        hash_eq_len::<7>();
        hash_eq_len::<8>();
        hash_eq_len::<15>();
        hash_eq_len::<16>();
        hash_eq_len::<17>();
        hash_eq_len::<24>();
        hash_eq_len::<33>();
        check!(!unsafe { UF_OVERFLOW }, "UF table large enough");
        cover!(true, "reached");
    }

    /// RFC 2104 HMAC == hmac crate, key 8 bytes, messages of 0, 8, 9, 24 bytes in two parts
    fn lemma_hmac_eq [unwind = 36] {
        hmac_eq_len::<0>(0);
        hmac_eq_len::<8>(3);
        hmac_eq_len::<9>(9);
        hmac_eq_len::<24>(8);
        check!(!unsafe { UF_OVERFLOW }, "UF table large enough");
        cover!(true, "reached");
    }

    /// RFC 5869 Expand == hkdf crate: prk 8 bytes, info 12 bytes, 20 output bytes (3 blocks)
    fn lemma_hkdf_eq [unwind = 36] {
        let prk = any_bytes::<8>();
        let info = any_bytes::<12>();
        let mut a = [0u8; 20];
        sp::hkdf_expand(&prk, &[&info[..5], &info[5..]], &mut a);
        let mut b = [0u8; 20];
        Hkdf::<MHash>::from_prk(&prk).unwrap().expand_multi_info(&[&info[..5], &info[5..]], &mut b).unwrap();
        check!(eq_bytes(&a, &b), "spec hkdf-expand == hkdf crate");
        let salt = any_bytes::<8>();
        let (prk2, _) = Hkdf::<MHash>::extract(Some(&salt), &info);
        check!(eq_bytes(&sp::hkdf_extract(Some(&salt), &[&info]), &prk2), "spec hkdf-extract == hkdf crate");
        let (prk3, _) = Hkdf::<MHash>::extract(None, &info);
        check!(eq_bytes(&sp::hkdf_extract(None, &[&info]), &prk3), "spec hkdf-extract(no salt) == hkdf crate");
        check!(!unsafe { UF_OVERFLOW }, "UF table large enough");
        cover!(true, "reached");
    }

    /// the credential-response pad: 42 bytes (6 blocks), info = 32-byte nonce || 21-byte label
    fn lemma_hkdf_pad42 [unwind = 46] {
        let prk = any_bytes::<8>();
        let nonce = any_bytes::<32>();
        let mut a = [0u8; 42];
        sp::hkdf_expand(&prk, &[&nonce, b"CredentialResponsePad"], &mut a);
        let mut b = [0u8; 42];
        Hkdf::<MHash>::from_prk(&prk).unwrap().expand_multi_info(&[&nonce, b"CredentialResponsePad"], &mut b).unwrap();
        check!(eq_bytes(&a, &b), "spec hkdf-expand == hkdf crate (42 bytes)");
        cover!(true, "reached");
    }

    /// Engine self-test: CBMC 6.11's library memcpy loses a byte when a copy spans the end of a nested struct of
    /// generic-array's tree layout (found with this harness: U42 40+2 and 39+3 failed). The driver therefore stubs
    /// <[u8]>::copy_from_slice by an element-wise loop (vk::elementwise_copy); this harness must pass for any verdict to be trusted.
    fn engine_selftest_ga_copy [unwind = 80] {
        use generic_array::typenum::{U42, U48, U3, U5, U6};
        use generic_array::GenericArray;
        let src = any_bytes::<48>();
        macro_rules! t { ($ty:ty, $o:expr, $k:expr, $m:literal) => {{
            let mut x = GenericArray::<u8, $ty>::default();
            x[$o..$o + $k].copy_from_slice(&src[..$k]);
            let mut ok = true;
            let mut i = 0;
            while i < $k { ok &= x[$o + i] == src[i]; i += 1; }
            check!(ok, $m);
        }}; }
        t!(U42, 40, 2, "U42 40+2");
        t!(U42, 41, 1, "U42 41+1");
        t!(U42, 39, 3, "U42 39+3");
        t!(U42, 32, 8, "U42 32+8");
        t!(U42, 0, 2, "U42 0+2");
        t!(U48, 40, 8, "U48 40+8");
        t!(U3, 1, 2, "U3 1+2");
        t!(U5, 3, 2, "U5 3+2");
        t!(U6, 4, 2, "U6 4+2");
        // tail copies of 8 bytes and more (library formulation)
        t!(U42, 34, 8, "U42 34+8");
        {
            use generic_array::typenum::{U35, U50, U75};
            t!(U35, 27, 8, "U35 27+8");
                t!(U50, 42, 8, "U50 42+8");
                    t!(U75, 67, 8, "U75 67+8");
        }
        // the copy patterns HKDF-Expand produces in suite M
        t!(U42, 0, 8, "U42 0+8");
        t!(U42, 24, 8, "U42 24+8");
        {
            use generic_array::typenum::{U1, U8};
            t!(U8, 0, 8, "U8 0+8");
            t!(U1, 0, 1, "U1 0+1");
        }
        cover!(true, "reached");
    }

    /// R1 — honest agreement of the reference: composing the eight RFC 9807 steps with one password, credential
    /// identifier, identities and context gives equal session keys, the registration's export key and the
    /// setup's public key. (Statement about the oracle only; it is what lets per-step equivalence carry C01.)
    /// Blinds are concrete (3 and 5): unblinding inverts blinding is field arithmetic, not code.
    fn lemma_spec_honest_agreement [unwind = 120] { honest_agreement_case(false); }
    fn lemma_spec_honest_agreement_explicit_idu [unwind = 120] { honest_agreement_case(true); }

    /// R1a — credentials round trip of the reference: what registration stores, masked by the server and unmasked by the
    /// client with the same randomized password, recovers the same client key, export key and the setup's public key
    fn lemma_spec_credentials_roundtrip [unwind = 60] {
        let rpwd_out = any_bytes::<8>(); // OPRF output (equal on both runs: blinding cancels, see R1)
        let s_sk = any_u8();
        assume(s_sk >= 1 && s_sk <= 240);
        let env_nonce = any_bytes::<32>();
        let masking_nonce = any_bytes::<32>();
        let server_pk = spec::ke_public(s_sk);
        let rpwd = spec::randomized_pwd(&rpwd_out, &rpwd_out);
        let mk = spec::masking_key(&rpwd);
        let (_, cpk, export) = spec::envelope_keys(&rpwd, &env_nonce);
        let e = spec::envelope(&rpwd, &env_nonce, &server_pk, &server_pk, &cpk);
        let masked = spec::mask(&mk, &masking_nonce, &server_pk, &env_nonce, &e.auth_tag);
        match ss::recover_credentials(&rpwd, &masking_nonce, &masked, None, None) {
            ss::Recovered::Ok { server_pk: spk, client_sk: _, client_pk, export_key } => {
                check!(eq_bytes(&spk, &server_pk), "client recovers the setup's public key");
                check!(eq_bytes(&export_key, &export), "login export key == registration export key");
                check!(eq_bytes(&client_pk, &cpk), "client recovers its registered key pair");
                cover!(true, "agreement");
            }
            ss::Recovered::Invalid => { check!(false, "honest credential recovery succeeds"); }
        }
    }

    /// R1b — key-exchange agreement of the reference: with consistent key pairs and the same preamble both sides derive the
    /// same session key and accept each other's MAC (Diffie-Hellman symmetry in the model group + same key schedule)
    fn lemma_spec_ke_agreement [unwind = 60] {
        let (s_sk, c_sk, e_s, e_c) = (any_u8(), any_u8(), any_u8(), any_u8());
        assume(s_sk >= 1 && s_sk <= 240 && c_sk >= 1 && c_sk <= 240 && e_s >= 1 && e_s <= 240 && e_c >= 1 && e_c <= 240);
        let ph = any_bytes::<8>(); // Hash(preamble), equal on both sides when both hold the same transcript
        let ks = spec::derive_keys(&spec::ke_dh(e_s, &spec::ke_public(e_c)), &spec::ke_dh(s_sk, &spec::ke_public(e_c)), &spec::ke_dh(e_s, &spec::ke_public(c_sk)), &ph);
        let kc = spec::derive_keys(&spec::ke_dh(e_c, &spec::ke_public(e_s)), &spec::ke_dh(e_c, &spec::ke_public(s_sk)), &spec::ke_dh(c_sk, &spec::ke_public(e_s)), &ph);
        check!(eq_bytes(&ks.session_key, &kc.session_key) && eq_bytes(&ks.km2, &kc.km2) && eq_bytes(&ks.km3, &kc.km3), "both sides derive the same session key and MAC keys");
        cover!(true, "agreement");
    }

    /// R2 — injectivity of the length-prefixed identity/context encoding inside the preamble: two (context, id_u, id_s)
    /// triples of total length <= 6 with the same concatenation "I2OSP(len,2)||context||I2OSP(len,2)||id_u||..." are equal
    fn lemma_spec_prefix_injective [unwind = 40] {
        let a = any_bytes::<6>();
        let b = any_bytes::<6>();
        let (a1, a2) = (any_usize(), any_usize());
        let (b1, b2) = (any_usize(), any_usize());
        assume(a1 <= a2 && a2 <= 6 && b1 <= b2 && b2 <= 6);
        // encodings: len(ctx) ctx len(idu) idu len(ids) ids, total 6 + 6 bytes
        let mut ea = [0u8; 12];
        let mut eb = [0u8; 12];
        enc3(&a, a1, a2, &mut ea);
        enc3(&b, b1, b2, &mut eb);
        if eq_bytes(&ea, &eb) {
            check!(a1 == b1 && a2 == b2 && eq_bytes(&a, &b), "moving bytes between context, client identity and server identity changes the encoding");
        }
        cover!(a1 != b1, "different splits");
    }
}

/// Lemma for the `GenericArray::clone_from_slice` stub: on this harness the original is *not* stubbed; both are run on the
/// sizes the code under test uses (1, 2, 8, 32, 34, 40, 42) and must agree byte for byte.
#[cfg_attr(kani, kani::proof)]
#[cfg_attr(kani, kani::unwind(60))]
#[cfg_attr(kani, kani::stub(zeroize::optimization_barrier, crate::verif_kani::vk::noop_barrier))]
pub fn lemma_stub_clone_from_slice() {
    use generic_array::typenum::{U1, U2, U32, U34, U40, U42, U8};
    use generic_array::GenericArray;
    let src = any_bytes::<42>();
    macro_rules! t { ($n:ty, $k:expr, $m:literal) => {{
        let a = GenericArray::<u8, $n>::clone_from_slice(&src[..$k]);
        let b = ga_clone_from_slice::<u8, $n>(&src[..$k]);
        check!(eq_bytes(&a, &b) && eq_bytes(&b, &src[..$k]), $m);
    }}; }
    t!(U1, 1, "U1");
    t!(U2, 2, "U2");
    t!(U8, 8, "U8");
    t!(U32, 32, "U32");
    t!(U34, 34, "U34");
    t!(U40, 40, "U40");
    t!(U42, 42, "U42");
    cover!(true, "reached");
}
pub const TABLE2: &[(&str, fn())] = &[("lemma_stub_clone_from_slice", lemma_stub_clone_from_slice as fn())];
