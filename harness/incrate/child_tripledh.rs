//! Harnesses on the module-private units of src/key_exchange/tripledh.rs (S10, S11).
#![allow(dead_code, unsafe_code, missing_docs, unused_imports, static_mut_refs, clippy::all)]
include!("/verif/harness/common/macros.rs");
use super::*;
use crate::keypair::SecretKey as _;
use crate::messages::{CredentialRequest, CredentialResponse};
use crate::opaque::MaskedResponse;
use crate::verif_kani::harnesses;
use crate::verif_kani::model::*;
use crate::verif_kani::spec;
use crate::verif_kani::spec_prims as sp;
use crate::verif_kani::vk::*;
use generic_array::typenum::U2 as TU2;

/// reference stub for `derive_3dh_keys` (≡ by s11_derive_3dh_keys[_external]): the three Diffie-Hellman values through the
/// very same `SecretKey` calls (so an external key's failure propagates identically), then RFC 9807 DeriveKeys
pub(crate) fn stub_derive_3dh_keys<D: Hash, KG: KeGroup, S: SecretKey<KG>>(
    dh: TripleDhComponents<KG, S>,
    hashed_derivation_transcript: &[u8],
) -> Result<TripleDhDerivationResult<D>, ProtocolError<S::Error>>
where
    D::Core: ProxyHash,
    <D::Core as BlockSizeUser>::BlockSize: IsLess<U256>,
    Le<<D::Core as BlockSizeUser>::BlockSize, U256>: NonZero,
{
    let d1 = dh.sk1.diffie_hellman(dh.pk1).map_err(InternalError::into_custom)?;
    let d2 = dh.sk2.diffie_hellman(dh.pk2)?;
    let d3 = dh.sk3.diffie_hellman(dh.pk3).map_err(InternalError::into_custom)?;
    let k = spec::derive_keys(&d1, &d2, &d3, hashed_derivation_transcript);
    Ok((
        GenericArray::clone_from_slice(&k.session_key),
        GenericArray::clone_from_slice(&k.km2),
        GenericArray::clone_from_slice(&k.km3),
    ))
}

fn pk_of(v: u8) -> PublicKey<G241> {
    PublicKey::<G241>::deserialize(&[PK_TAG, v]).unwrap()
}
fn sk_of(v: u8) -> PrivateKey<G241> {
    PrivateKey::<G241>::deserialize(&[v]).unwrap()
}
fn any_key() -> u8 {
    let v = any_u8();
    assume(v >= 1 && v <= 240);
    v
}

/// S11 with a directly held key
fn derive_case_direct() {
    let (p1, p2, p3) = (any_key(), any_key(), any_key());
    let (s1, s2, s3) = (any_key(), any_key(), any_key());
    let ht = any_bytes::<8>();
    let r = derive_3dh_keys::<MHash, G241, PrivateKey<G241>>(
        TripleDhComponents { pk1: pk_of(p1), sk1: sk_of(s1), pk2: pk_of(p2), sk2: sk_of(s2), pk3: pk_of(p3), sk3: sk_of(s3) },
        &ht,
    );
    check!(r.is_ok(), "key derivation succeeds");
    if let Ok(k) = r {
        let w = spec::derive_keys(&spec::ke_dh(s1, &[PK_TAG, p1]), &spec::ke_dh(s2, &[PK_TAG, p2]), &spec::ke_dh(s3, &[PK_TAG, p3]), &ht);
        check!(eq_bytes(&k.0, &w.session_key), "session_key == Expand-Label(Extract(dh1||dh2||dh3), SessionKey, Hash(preamble))");
        check!(eq_bytes(&k.1, &w.km2), "Km2 == Expand-Label(handshake_secret, ServerMAC, \"\")");
        check!(eq_bytes(&k.2, &w.km3), "Km3 == Expand-Label(handshake_secret, ClientMAC, \"\")");
        cover!(true, "reached");
        core::mem::forget(k);
    }
}

struct Ke2Inputs {
    blinded: u8,
    ke1: [u8; 34],
    beta: u8,
    masking_nonce: [u8; 32],
    masked: [u8; 42],
    client_s_pk: u8,
    server_s_sk: u8,
}

fn ke2_case(ctx: &[u8], idu_explicit: bool) {
    let blinded = any_u8();
    let ke1 = any_bytes::<34>();
    let beta = any_u8();
    let masking_nonce = any_bytes::<32>();
    let masked = any_bytes::<42>();
    let cpk = any_key();
    let ssk = any_key();
    let idb = any_bytes::<2>();
    let mut tape = Tape::symbolic();
    let Ok(ke1m) = Ke1Message::<G241>::deserialize(&ke1) else { return };
    let mr = MaskedResponse::<M>::deserialize(&masked);
    let b_ga = GenericArray::from([blinded]);
    let ke1_ga = GenericArray::clone_from_slice(&ke1);
    let beta_ga = GenericArray::from([beta]);
    let mn_ga = GenericArray::clone_from_slice(&masking_nonce);
    let cpkb = [PK_TAG, cpk];
    let spkb = spec::ke_public(ssk);
    // identities as the caller (ServerLogin::start) builds them
    let id_u_in = if idu_explicit { Input::<TU2, TU2>::from(&idb[..1]).unwrap() } else { Input::<TU2, TU2>::from_owned(GenericArray::from(cpkb)).unwrap() };
    let id_s_in = Input::<TU2, TU2>::from_owned(GenericArray::from(spkb)).unwrap();
    let r = <TripleDh as KeyExchange<MHash, G241>>::generate_ke2::<MOprf, _, PrivateKey<G241>>(
        &mut tape,
        CredentialRequest::<M>::serialize_iter(&b_ga, &ke1_ga),
        CredentialResponse::<M>::serialize_without_ke(&beta_ga, &mn_ga, &mr),
        ke1m,
        pk_of(cpk),
        sk_of(ssk),
        id_u_in.iter(),
        id_s_in.iter(),
        ctx,
    );
    check!(r.is_ok(), "server key-exchange step succeeds");
    let Ok(res) = r else { return };
    let st = res.0.serialize(); // km3(8) | Hash(preamble||server_mac)(8) | session_key(8)
    let msg = res.1.serialize(); // server_nonce(32) | server_e_pk(2) | server_mac(8)
    check!(tape.pos == 33 && !tape.overrun, "exactly one key seed and one nonce are drawn");
    // fresh ephemeral key and nonce, each from its own tape segment (either order)
    let (seed_at, nonce_at) = if eq_bytes(&msg[0..32], &tape.buf[1..33]) { (0usize, 1usize) } else { (32usize, 0usize) };
    check!(eq_bytes(&msg[0..32], &tape.buf[nonce_at..nonce_at + 32]), "server nonce is 32 fresh bytes from the caller's RNG");
    let esk = spec::derive_dh_keypair(&[tape.buf[seed_at]]);
    check!(eq_bytes(&msg[32..34], &spec::ke_public(esk)), "server ephemeral key = DeriveDiffieHellmanKeyPair(fresh seed)");
    let mut l2 = [0u8; 75];
    l2[0] = beta;
    put(&mut l2[1..33], &masking_nonce);
    put(&mut l2[33..75], &masked);
    let mut ke1full = [0u8; 35];
    ke1full[0] = blinded;
    put(&mut ke1full[1..35], &ke1);
    let id_u: &[u8] = if idu_explicit { &idb[..1] } else { &cpkb };
    let pre = spec::preamble(ctx, id_u, &ke1full, &spkb, &l2, &msg[0..32], &msg[32..34]);
    let w = spec::server_ke(pre, esk, ssk, &ke1[32..34], &cpkb);
    check!(eq_bytes(&msg[34..42], &w.server_mac), "server MAC == MAC(Km2, Hash(preamble)) over context, identities, request, response, nonce, key share");
    check!(eq_bytes(&st[0..8], &w.km3), "pending state holds Km3");
    check!(eq_bytes(&st[8..16], &w.transcript2), "pending state holds Hash(preamble || server_mac)");
    check!(eq_bytes(&st[16..24], &w.session_key), "pending state holds the session key");
    cover!(true, "reached");
    core::mem::forget(res);
}

fn ke3_case(ctx: &[u8], idu_explicit: bool) {
    let blinded = any_u8();
    let ke1 = any_bytes::<34>();
    let beta = any_u8();
    let masking_nonce = any_bytes::<32>();
    let masked = any_bytes::<42>();
    let ke2 = any_bytes::<42>();
    let ke1st = any_bytes::<33>();
    let spk = any_key();
    let csk = any_key();
    let idb = any_bytes::<2>();
    let Ok(ke2m) = Ke2Message::<MHash, G241>::deserialize(&ke2) else { return };
    let Ok(ke1s) = Ke1State::<G241>::deserialize(&ke1st) else { return };
    let mr = MaskedResponse::<M>::deserialize(&masked);
    let b_ga = GenericArray::from([blinded]);
    let ke1_ga = GenericArray::clone_from_slice(&ke1);
    let beta_ga = GenericArray::from([beta]);
    let mn_ga = GenericArray::clone_from_slice(&masking_nonce);
    let cpkb = spec::ke_public(csk);
    let spkb = [PK_TAG, spk];
    let id_u_in = if idu_explicit { Input::<TU2, TU2>::from(&idb[..1]).unwrap() } else { Input::<TU2, TU2>::from_owned(GenericArray::from(cpkb)).unwrap() };
    let id_s_in = Input::<TU2, TU2>::from_owned(GenericArray::from(spkb)).unwrap();
    let r = <TripleDh as KeyExchange<MHash, G241>>::generate_ke3(
        CredentialResponse::<M>::serialize_without_ke(&beta_ga, &mn_ga, &mr),
        ke2m,
        &ke1s,
        CredentialRequest::<M>::serialize_iter(&b_ga, &ke1_ga),
        pk_of(spk),
        sk_of(csk),
        id_u_in.iter(),
        id_s_in.iter(),
        ctx,
    );
    let mut l2 = [0u8; 75];
    l2[0] = beta;
    put(&mut l2[1..33], &masking_nonce);
    put(&mut l2[33..75], &masked);
    let mut ke1full = [0u8; 35];
    ke1full[0] = blinded;
    put(&mut ke1full[1..35], &ke1);
    let id_u: &[u8] = if idu_explicit { &idb[..1] } else { &cpkb };
    let pre = spec::preamble(ctx, id_u, &ke1full, &spkb, &l2, &ke2[0..32], &ke2[32..34]);
    let w = spec::client_ke(pre, ke1st[0], csk, &ke2[32..34], &spkb, &ke2[34..42]);
    let mac_ok = eq_bytes(&w.expected_server_mac, &ke2[34..42]);
    match r {
        Ok(res) => {
            check!(mac_ok, "client accepts only a server MAC over its own view of the whole transcript");
            check!(eq_bytes(&res.0, &w.session_key), "client session key per RFC 9807 6.4.3");
            check!(eq_bytes(&res.1.serialize(), &w.client_mac), "client MAC == MAC(Km3, Hash(preamble || server_mac))");
            cover!(true, "accept");
            core::mem::forget(res);
        }
        Err(e) => {
            check!(!mac_ok, "the genuine server MAC is accepted");
            check!(matches!(e, ProtocolError::InvalidLoginError), "a wrong server MAC is reported as InvalidLoginError");
            cover!(true, "reject");
        }
    }
    core::mem::forget(ke1s);
}

/// generate_ke2 monomorphised with single-slice iterators (see ke3_case_flat)
fn ke2_case_flat(ctx: &[u8], idu_explicit: bool) {
    let blinded = any_u8();
    let ke1 = any_bytes::<34>();
    let beta = any_u8();
    let masking_nonce = any_bytes::<32>();
    let masked = any_bytes::<42>();
    let cpk = any_key();
    let ssk = any_key();
    let idb = any_bytes::<2>();
    let mut tape = Tape::symbolic();
    let Ok(ke1m) = Ke1Message::<G241>::deserialize(&ke1) else { return };
    let cpkb = [PK_TAG, cpk];
    let spkb = spec::ke_public(ssk);
    let mut l2 = [0u8; 75];
    l2[0] = beta;
    put(&mut l2[1..33], &masking_nonce);
    put(&mut l2[33..75], &masked);
    let mut ke1full = [0u8; 35];
    ke1full[0] = blinded;
    put(&mut ke1full[1..35], &ke1);
    let id_u: &[u8] = if idu_explicit { &idb[..1] } else { &cpkb };
    let mut idu_enc = [0u8; 4];
    idu_enc[1] = id_u.len() as u8;
    put(&mut idu_enc[2..], id_u);
    let idu_enc_len = 2 + id_u.len();
    let ids_enc = [0u8, 2, spkb[0], spkb[1]];
    let r = <TripleDh as KeyExchange<MHash, G241>>::generate_ke2::<MOprf, _, PrivateKey<G241>>(
        &mut tape,
        core::iter::once(&ke1full[..]),
        core::iter::once(&l2[..]),
        ke1m,
        pk_of(cpk),
        sk_of(ssk),
        core::iter::once(&idu_enc[..idu_enc_len]),
        core::iter::once(&ids_enc[..]),
        ctx,
    );
    check!(r.is_ok(), "server key-exchange step succeeds");
    let Ok(res) = r else { return };
    let st = res.0.serialize(); // km3(8) | Hash(preamble||server_mac)(8) | session_key(8)
    let msg = res.1.serialize(); // server_nonce(32) | server_e_pk(2) | server_mac(8)
    check!(tape.pos == 33 && !tape.overrun, "exactly one key seed and one nonce are drawn");
    let seed_first = eq_bytes(&msg[0..32], &tape.buf[1..33]);
    let nonce_first = eq_bytes(&msg[0..32], &tape.buf[0..32]);
    check!(seed_first || nonce_first, "server nonce is 32 fresh bytes from the caller's RNG, disjoint from the key seed");
    let seed_byte = if seed_first { tape.buf[0] } else { tape.buf[32] };
    let esk = spec::derive_dh_keypair(&[seed_byte]);
    check!(eq_bytes(&msg[32..34], &spec::ke_public(esk)), "server ephemeral key = DeriveDiffieHellmanKeyPair(fresh seed)");
    let pre = spec::preamble(ctx, id_u, &ke1full, &spkb, &l2, &msg[0..32], &msg[32..34]);
    let w = spec::server_ke(pre, esk, ssk, &ke1[32..34], &cpkb);
    check!(eq_bytes(&msg[34..42], &w.server_mac), "server MAC == MAC(Km2, Hash(preamble)) over context, identities, request, response, nonce, key share");
    check!(eq_bytes(&st[0..8], &w.km3), "pending state holds Km3");
    check!(eq_bytes(&st[8..16], &w.transcript2), "pending state holds Hash(preamble || server_mac)");
    check!(eq_bytes(&st[16..24], &w.session_key), "pending state holds the session key");
    cover!(true, "reached");
    core::mem::forget(res);
}

/// generate_ke3 monomorphised with single-slice iterators (`core::iter::once`): the function is generic in its iterator
/// arguments and only their concatenation matters; CBMC follows `Once` precisely, whereas the crate-internal
/// `Chain<array::IntoIter<..>>` arguments make every later buffer position symbolic (3 M steps, > 50 GB).
fn ke3_case_flat(ctx: &[u8], idu_explicit: bool) {
    let blinded = any_u8();
    let ke1 = any_bytes::<34>();
    let beta = any_u8();
    let masking_nonce = any_bytes::<32>();
    let masked = any_bytes::<42>();
    let ke2 = any_bytes::<42>();
    let ke1st = any_bytes::<33>();
    let spk = any_key();
    let csk = any_key();
    let idb = any_bytes::<2>();
    let Ok(ke2m) = Ke2Message::<MHash, G241>::deserialize(&ke2) else { return };
    let Ok(ke1s) = Ke1State::<G241>::deserialize(&ke1st) else { return };
    let cpkb = spec::ke_public(csk);
    let spkb = [PK_TAG, spk];
    let mut l2 = [0u8; 75];
    l2[0] = beta;
    put(&mut l2[1..33], &masking_nonce);
    put(&mut l2[33..75], &masked);
    let mut ke1full = [0u8; 35];
    ke1full[0] = blinded;
    put(&mut ke1full[1..35], &ke1);
    let id_u: &[u8] = if idu_explicit { &idb[..1] } else { &cpkb };
    let mut idu_enc = [0u8; 4];
    idu_enc[1] = id_u.len() as u8;
    put(&mut idu_enc[2..], id_u);
    let idu_enc_len = 2 + id_u.len();
    let ids_enc = [0u8, 2, spkb[0], spkb[1]];
    let r = <TripleDh as KeyExchange<MHash, G241>>::generate_ke3(
        core::iter::once(&l2[..]),
        ke2m,
        &ke1s,
        core::iter::once(&ke1full[..]),
        pk_of(spk),
        sk_of(csk),
        core::iter::once(&idu_enc[..idu_enc_len]),
        core::iter::once(&ids_enc[..]),
        ctx,
    );
    let pre = spec::preamble(ctx, id_u, &ke1full, &spkb, &l2, &ke2[0..32], &ke2[32..34]);
    let w = spec::client_ke(pre, ke1st[0], csk, &ke2[32..34], &spkb, &ke2[34..42]);
    let mac_ok = eq_bytes(&w.expected_server_mac, &ke2[34..42]);
    match r {
        Ok(res) => {
            check!(mac_ok, "client accepts only a server MAC over its own view of the whole transcript");
            check!(eq_bytes(&res.0, &w.session_key), "client session key per RFC 9807 6.4.3");
            check!(eq_bytes(&res.1.serialize(), &w.client_mac), "client MAC == MAC(Km3, Hash(preamble || server_mac))");
            cover!(true, "accept");
            core::mem::forget(res);
        }
        Err(e) => {
            check!(!mac_ok, "the genuine server MAC is accepted");
            check!(matches!(e, ProtocolError::InvalidLoginError), "a wrong server MAC is reported as InvalidLoginError");
            cover!(true, "reject");
        }
    }
    core::mem::forget(ke1s);
}

/// "OPAQUEv1-" || I2OSP(len(ctx),2) || ctx || id_u-part || l1 || id_s-part || l2 || tail  (the iterator arguments taken as
/// given: the length prefixes of the identities are part of what the callers pass)
fn raw_preamble(ctx: &[u8], idu: &[u8], l1: &[u8], ids: &[u8], l2: &[u8], tail: &[u8]) -> sp::SH {
    sp::SH::new().chain(b"OPAQUEv1-").chain(&sp::i2osp2(ctx.len())).chain(ctx).chain(idu).chain(l1).chain(ids).chain(l2).chain(tail)
}

/// S10-quick: generate_ke3 with one-byte iterator arguments (order of the transcript parts, which key goes into which
/// Diffie-Hellman, exact MAC check, client MAC over the transcript extended by the *received* MAC) — the full-size
/// transcript is the stretch obligation s10p
fn ke3_small_case() {
    let parts = any_bytes::<4>(); // id_u, l1, id_s, l2: one distinct symbolic byte each
    let ctx = any_bytes::<1>();
    let ke2 = any_bytes::<42>();
    let ke1st = any_bytes::<33>();
    let spk = any_key();
    let csk = any_key();
    let Ok(ke2m) = Ke2Message::<MHash, G241>::deserialize(&ke2) else { return };
    let Ok(ke1s) = Ke1State::<G241>::deserialize(&ke1st) else { return };
    let spkb = [PK_TAG, spk];
    let r = <TripleDh as KeyExchange<MHash, G241>>::generate_ke3(
        core::iter::once(&parts[3..4]),
        ke2m,
        &ke1s,
        core::iter::once(&parts[1..2]),
        pk_of(spk),
        sk_of(csk),
        core::iter::once(&parts[0..1]),
        core::iter::once(&parts[2..3]),
        &ctx,
    );
    let pre = raw_preamble(&ctx, &parts[0..1], &parts[1..2], &parts[2..3], &parts[3..4], &ke2[0..34]);
    let w = spec::client_ke(pre, ke1st[0], csk, &ke2[32..34], &spkb, &ke2[34..42]);
    let mac_ok = eq_bytes(&w.expected_server_mac, &ke2[34..42]);
    match r {
        Ok(res) => {
            check!(mac_ok, "client accepts only a server MAC over its own view of the whole transcript");
            check!(eq_bytes(&res.0, &w.session_key), "client session key per RFC 9807 6.4.3");
            check!(eq_bytes(&res.1.serialize(), &w.client_mac), "client MAC == MAC(Km3, Hash(preamble || server_mac))");
            cover!(true, "accept");
            core::mem::forget(res);
        }
        Err(e) => {
            check!(!mac_ok, "the genuine server MAC is accepted");
            check!(matches!(e, ProtocolError::InvalidLoginError), "a wrong server MAC is reported as InvalidLoginError");
            cover!(true, "reject");
        }
    }
    core::mem::forget(ke1s);
}

fn ke2_small_case() {
    let parts = any_bytes::<4>(); // id_u, l1, id_s, l2
    let ctx = any_bytes::<1>();
    let ke1 = any_bytes::<34>();
    let cpk = any_key();
    let ssk = any_key();
    let mut tape = Tape::symbolic();
    let Ok(ke1m) = Ke1Message::<G241>::deserialize(&ke1) else { return };
    let cpkb = [PK_TAG, cpk];
    let r = <TripleDh as KeyExchange<MHash, G241>>::generate_ke2::<MOprf, _, PrivateKey<G241>>(
        &mut tape,
        core::iter::once(&parts[1..2]),
        core::iter::once(&parts[3..4]),
        ke1m,
        pk_of(cpk),
        sk_of(ssk),
        core::iter::once(&parts[0..1]),
        core::iter::once(&parts[2..3]),
        &ctx,
    );
    check!(r.is_ok(), "server key-exchange step succeeds");
    let Ok(res) = r else { return };
    let st = res.0.serialize();
    let msg = res.1.serialize();
    check!(tape.pos == 33 && !tape.overrun, "exactly one key seed and one nonce are drawn");
    let seed_first = eq_bytes(&msg[0..32], &tape.buf[1..33]);
    let nonce_first = eq_bytes(&msg[0..32], &tape.buf[0..32]);
    check!(seed_first || nonce_first, "server nonce is 32 fresh bytes from the caller's RNG, disjoint from the key seed");
    let seed_byte = if seed_first { tape.buf[0] } else { tape.buf[32] };
    let esk = spec::derive_dh_keypair(&[seed_byte]);
    check!(eq_bytes(&msg[32..34], &spec::ke_public(esk)), "server ephemeral key = DeriveDiffieHellmanKeyPair(fresh seed)");
    let pre = raw_preamble(&ctx, &parts[0..1], &parts[1..2], &parts[2..3], &parts[3..4], &msg[0..34]);
    let w = spec::server_ke(pre, esk, ssk, &ke1[32..34], &cpkb);
    check!(eq_bytes(&msg[34..42], &w.server_mac), "server MAC == MAC(Km2, Hash(preamble)) over context, identities, request, response, nonce, key share");
    check!(eq_bytes(&st[0..8], &w.km3), "pending state holds Km3");
    check!(eq_bytes(&st[8..16], &w.transcript2), "pending state holds Hash(preamble || server_mac)");
    check!(eq_bytes(&st[16..24], &w.session_key), "pending state holds the session key");
    cover!(true, "reached");
    core::mem::forget(res);
}

/// S10-mac: exactness of the client's server-MAC check for a *fixed* transcript and fixed keys: only the received MAC (and the
/// hash) is symbolic. Ok <=> MAC == MAC(Km2, Hash(preamble)) for every 8-byte MAC and every compression function.
/// (Message bytes are concrete so that only hash states are symbolic: this is what fits the quick tier; the fully symbolic
/// transcript is s10p / s10q.)
fn ke3_mac_exact_case() {
    let mac = any_bytes::<8>();
    let mut ke2 = [0u8; 42];
    let mut i = 0;
    while i < 32 {
        ke2[i] = 0xa0 + (i as u8 % 7);
        i += 1;
    }
    ke2[32] = PK_TAG;
    ke2[33] = 0x21;
    put(&mut ke2[34..42], &mac);
    let mut ke1st = [0x11u8; 33];
    ke1st[0] = 0x33;
    let parts = [0x61u8, 0x62, 0x63, 0x64];
    let ctx = [0x7au8];
    let (spk, csk) = (0x45u8, 0x17u8);
    let Ok(ke2m) = Ke2Message::<MHash, G241>::deserialize(&ke2) else { return };
    let Ok(ke1s) = Ke1State::<G241>::deserialize(&ke1st) else { return };
    let spkb = [PK_TAG, spk];
    let r = <TripleDh as KeyExchange<MHash, G241>>::generate_ke3(
        core::iter::once(&parts[3..4]),
        ke2m,
        &ke1s,
        core::iter::once(&parts[1..2]),
        pk_of(spk),
        sk_of(csk),
        core::iter::once(&parts[0..1]),
        core::iter::once(&parts[2..3]),
        &ctx,
    );
    let pre = raw_preamble(&ctx, &parts[0..1], &parts[1..2], &parts[2..3], &parts[3..4], &ke2[0..34]);
    let w = spec::client_ke(pre, ke1st[0], csk, &ke2[32..34], &spkb, &mac);
    let mac_ok = eq_bytes(&w.expected_server_mac, &mac);
    match r {
        Ok(res) => {
            check!(mac_ok, "client accepts only the exact server MAC");
            check!(eq_bytes(&res.0, &w.session_key), "client session key per RFC 9807 6.4.3");
            check!(eq_bytes(&res.1.serialize(), &w.client_mac), "client MAC == MAC(Km3, Hash(preamble || server_mac))");
            cover!(true, "accept");
            core::mem::forget(res);
        }
        Err(e) => {
            check!(!mac_ok, "the genuine server MAC is accepted");
            check!(matches!(e, ProtocolError::InvalidLoginError), "a wrong server MAC is reported as InvalidLoginError");
            cover!(true, "reject");
        }
    }
    core::mem::forget(ke1s);
}

harnesses! {
    fn s11_derive_3dh_keys [unwind = 36] { derive_case_direct(); }

    /// S11/C18: the server's static DH goes through the external-key interface; a failing key => the same custom error
    fn s11_derive_3dh_keys_external [unwind = 36] {
        let (p1, p2, p3) = (any_key(), any_key(), any_key());
        let (s1, s2, s3) = (any_key(), any_key(), any_key());
        let ht = any_bytes::<8>();
        let fail_at = any_usize();
        assume(fail_at <= 2);
        let code = any_u8();
        xk_reset(fail_at, code);
        let r = derive_3dh_keys::<MHash, G241, MSecretKey>(
            TripleDhComponents { pk1: pk_of(p1), sk1: sk_of(s1), pk2: pk_of(p2), sk2: MSecretKey(s2), pk3: pk_of(p3), sk3: sk_of(s3) },
            &ht,
        );
        check!(unsafe { XK_DH_CALLS } == 1 && unsafe { XK_PUBLIC_CALLS } == 0 && unsafe { XK_SER_CALLS } == 0, "exactly one Diffie-Hellman is asked of the external key, nothing else");
        match r {
            Ok(k) => {
                check!(fail_at != 1, "a failing external key is not ignored");
                let w = spec::derive_keys(&spec::ke_dh(s1, &[PK_TAG, p1]), &spec::ke_dh(s2, &[PK_TAG, p2]), &spec::ke_dh(s3, &[PK_TAG, p3]), &ht);
                check!(eq_bytes(&k.0, &w.session_key) && eq_bytes(&k.1, &w.km2) && eq_bytes(&k.2, &w.km3), "same keys as with the key held directly");
                cover!(true, "ok");
                core::mem::forget(k);
            }
            Err(e) => {
                check!(fail_at == 1, "the external key did not fail");
                check!(matches!(e, ProtocolError::LibraryError(InternalError::Custom(XkError(c))) if c == code), "the external key's own error is returned");
                cover!(true, "external key failure");
            }
        }
    }

    fn s10_generate_ke2_ctx0_default_ids [unwind = 46] { ke2_case(&[], false); }
    fn s10_generate_ke2_ctx2_explicit_idu [unwind = 46] { let c = any_bytes::<2>(); ke2_case(&c, true); }
    fn s10_generate_ke3_ctx0_default_ids [unwind = 46] { ke3_case(&[], false); }
    fn s10_generate_ke3_ctx2_explicit_idu [unwind = 46] { let c = any_bytes::<2>(); ke3_case(&c, true); }

    /// hkdf_expand_label == RFC 9807 Expand-Label (8-byte context); a 256-byte context is refused (C05/C12)
    fn s10_expand_label_limits [unwind = 36] {
        static Z: [u8; 256] = [0u8; 256];
        let secret = any_bytes::<8>();
        let r = hkdf_expand_label::<MHash>(&secret, STR_SESSION_KEY, &Z[..256]);
        check!(r.is_err(), "a context that does not fit one length byte is refused");
        cover!(r.is_err(), "256 refused");
        let ctx = any_bytes::<8>();
        let r = hkdf_expand_label::<MHash>(&secret, STR_SESSION_KEY, &ctx);
        check!(r.is_ok(), "expand-label succeeds");
        if let Ok(k) = r {
            check!(eq_bytes(&k, &spec::expand_label(&secret, b"SessionKey", &ctx)), "Expand-Label per RFC 9807 6.4.2.2");
            cover!(true, "ok");
        }
    }

    // S10 wiring: generate_ke2 / generate_ke3 with derive_3dh_keys replaced by its reference stub (≡ by S11): what is
    // decided is the transcript (preamble) construction, the MAC computations and checks, randomness and state assembly
    #[cfg_attr(kani, kani::stub(crate::key_exchange::tripledh::derive_3dh_keys, crate::key_exchange::tripledh::verif_kani_tripledh::stub_derive_3dh_keys))]
    fn s10w_generate_ke2_ctx0_default_ids [unwind = 46] { ke2_case(&[], false); }
    #[cfg_attr(kani, kani::stub(crate::key_exchange::tripledh::derive_3dh_keys, crate::key_exchange::tripledh::verif_kani_tripledh::stub_derive_3dh_keys))]
    fn s10w_generate_ke2_ctx2_explicit_idu [unwind = 46] { let c = any_bytes::<2>(); ke2_case(&c, true); }
    #[cfg_attr(kani, kani::stub(crate::key_exchange::tripledh::derive_3dh_keys, crate::key_exchange::tripledh::verif_kani_tripledh::stub_derive_3dh_keys))]
    fn s10w_generate_ke3_ctx0_default_ids [unwind = 46] { ke3_case(&[], false); }
    #[cfg_attr(kani, kani::stub(crate::key_exchange::tripledh::derive_3dh_keys, crate::key_exchange::tripledh::verif_kani_tripledh::stub_derive_3dh_keys))]
    fn s10w_generate_ke3_ctx2_explicit_idu [unwind = 46] { let c = any_bytes::<2>(); ke3_case(&c, true); }
    #[cfg_attr(kani, kani::stub(crate::key_exchange::tripledh::derive_3dh_keys, crate::key_exchange::tripledh::verif_kani_tripledh::stub_derive_3dh_keys))]
    fn s10p_generate_ke3_ctx0_default_ids [unwind = 80] { ke3_case_flat(&[], false); }
    #[cfg_attr(kani, kani::stub(crate::key_exchange::tripledh::derive_3dh_keys, crate::key_exchange::tripledh::verif_kani_tripledh::stub_derive_3dh_keys))]
    fn s10p_generate_ke3_ctx2_explicit_idu [unwind = 80] { let c = any_bytes::<2>(); ke3_case_flat(&c, true); }
    #[cfg_attr(kani, kani::stub(crate::key_exchange::tripledh::derive_3dh_keys, crate::key_exchange::tripledh::verif_kani_tripledh::stub_derive_3dh_keys))]
    fn s10p_generate_ke2_ctx0_default_ids [unwind = 80] { ke2_case_flat(&[], false); }
    #[cfg_attr(kani, kani::stub(crate::key_exchange::tripledh::derive_3dh_keys, crate::key_exchange::tripledh::verif_kani_tripledh::stub_derive_3dh_keys))]
    fn s10p_generate_ke2_ctx2_explicit_idu [unwind = 80] { let c = any_bytes::<2>(); ke2_case_flat(&c, true); }
    #[cfg_attr(kani, kani::stub(crate::key_exchange::tripledh::derive_3dh_keys, crate::key_exchange::tripledh::verif_kani_tripledh::stub_derive_3dh_keys))]
    fn s10q_generate_ke3_small [unwind = 46] { ke3_small_case(); }
    #[cfg_attr(kani, kani::stub(crate::key_exchange::tripledh::derive_3dh_keys, crate::key_exchange::tripledh::verif_kani_tripledh::stub_derive_3dh_keys))]
    fn s10q_generate_ke2_small [unwind = 46] { ke2_small_case(); }
    #[cfg_attr(kani, kani::stub(crate::key_exchange::tripledh::derive_3dh_keys, crate::key_exchange::tripledh::verif_kani_tripledh::stub_derive_3dh_keys))]
    fn s10m_generate_ke3_mac_exact [unwind = 46] { ke3_mac_exact_case(); }
}
