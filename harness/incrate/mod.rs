//! Harnesses compiled *inside* opaque-ke (hook: `#[cfg(any(kani, opaque_ke_verif))] #[path = ...] pub mod verif_kani;`
//! in src/lib.rs). Under Kani every `pub fn` produced by `harnesses!` is a `#[kani::proof]`; natively
//! (`--cfg opaque_ke_verif`) the same functions are ordinary functions driven by the replay shim in `vk`.
#![allow(dead_code, unsafe_code, missing_docs, unused_imports, static_mut_refs, unexpected_cfgs, clippy::all)]

include!("../common/macros.rs");

#[path = "../common/vk.rs"]
pub mod vk;
#[path = "../common/model.rs"]
pub mod model;
#[path = "../common/flatserde.rs"]
pub mod flat;
pub mod spec_prims;
pub mod spec;
pub mod spec_steps;

include!("../common/hmacro.rs");
pub(crate) use harnesses;

pub mod h_lemmas;
pub mod h_c03;
pub mod h_decoders;
pub mod h_serde;
pub mod h_inputs;
pub mod h_steps;
pub mod h_derive;
pub mod w_stubs;
pub mod h_wire;

/// all harnesses reachable from this module (the child modules in opaque.rs / envelope.rs /
/// tripledh.rs register theirs through `child_tables`)
pub fn tables() -> [&'static [(&'static str, fn())]; 12] {
    [
        h_lemmas::TABLE,
        h_derive::TABLE,
        h_lemmas::TABLE2,
        h_wire::TABLE,
        h_steps::TABLE,
        h_inputs::TABLE,
        h_c03::TABLE,
        h_decoders::TABLE,
        h_serde::TABLE,
        crate::opaque::verif_kani_opaque::TABLE,
        crate::envelope::verif_kani_envelope::TABLE,
        crate::key_exchange::tripledh::verif_kani_tripledh::TABLE,
    ]
}

#[cfg(not(kani))]
pub mod replay {
    extern crate std;
    use std::string::String;
    use std::vec::Vec;

    pub struct Outcome {
        pub found: bool,
        pub failed: Vec<String>,
        pub assume_violated: bool,
        pub underrun: bool,
        pub leftover: usize,
        pub panicked: Option<String>,
        pub covered: Vec<String>,
    }

    /// run harness `name` on the recorded `any()` values
    pub fn run(name: &str, vals: Vec<Vec<u8>>) -> Outcome {
        let mut f: Option<fn()> = None;
        for t in super::tables().iter() {
            for (n, h) in t.iter() {
                if *n == name {
                    f = Some(*h);
                }
            }
        }
        let mut out = Outcome { found: f.is_some(), failed: Vec::new(), assume_violated: false, underrun: false, leftover: 0, panicked: None, covered: Vec::new() };
        let Some(f) = f else { return out };
        super::vk::R.with(|r| {
            let mut r = r.borrow_mut();
            r.vals = vals;
            r.pos = 0;
            r.failed.clear();
            r.covered.clear();
            r.assume_violated = false;
            r.underrun = false;
        });
        super::model::uf_reset();
        let res = std::panic::catch_unwind(f);
        if let Err(e) = res {
            if e.downcast_ref::<super::vk::AssumeViolated>().is_none() {
                let msg = if let Some(s) = e.downcast_ref::<&str>() { String::from(*s) } else if let Some(s) = e.downcast_ref::<String>() { s.clone() } else { String::from("panic") };
                out.panicked = Some(msg);
            }
        }
        super::vk::R.with(|r| {
            let r = r.borrow();
            out.failed = r.failed.clone();
            out.covered = r.covered.clone();
            out.assume_violated = r.assume_violated;
            out.underrun = r.underrun;
            out.leftover = r.vals.len() - r.pos.min(r.vals.len());
        });
        out
    }
}
