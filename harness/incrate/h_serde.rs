//! D-serde — the serde paths of every message and persisted state of suite M (DESIGN.md §3.1 D-serde, C11 / C13).
//!
//! The real `Serialize` / `Deserialize` implementations (derive-generated visitors in opaque.rs / messages.rs /
//! envelope.rs / tripledh.rs, the hand-written key impls in keypair.rs, voprf's element / scalar adapters and
//! generic-array's tuple impl) are driven by the harness-defined byte-verbatim format `flat` (harness/common/
//! flatserde.rs; for these fixed-size types byte-identical to bincode 1.x). Two statements per type:
//!
//!  * **accept** (`ds_<type>`): for *every* byte string of the type's serde length: if serde decoding accepts it,
//!    it consumed exactly that many bytes; the accepted value's *native* encoding is accepted by the native decoder
//!    and rebuilt identically (so every element / scalar / key field passed the validity checks that `d_<type>`
//!    proves the native decoder applies — nothing reaches a DH / OPRF computation that the native path refuses);
//!    and its serde re-encoding is the input (canonical). One byte short is refused.
//!  * **reload** (`dr_<type>`): for *every* natively decodable value: serde-save then serde-load succeeds, consumes
//!    everything written, and yields a value with the same native encoding (structural identity: by `d_<type>` the
//!    native encoding determines the value), and serde-saving that again gives the same bytes.
use super::flat::*;
use super::model::*;
use super::vk::*;
use crate::keypair::{KeyPair, PrivateKey, PublicKey};
use crate::{
    ClientLogin, ClientRegistration, CredentialFinalization, CredentialRequest, CredentialResponse,
    RegistrationRequest, RegistrationResponse, RegistrationUpload, ServerLogin, ServerRegistration, ServerSetup,
};

macro_rules! serde_cases {
    ($( $acc:ident, $rel:ident : $ty:ty, serde_len = $sl:expr, native_len = $nl:expr; )*) => { $(
        fn $acc(input: &[u8]) {
            match from_flat::<$ty>(input) {
                Ok((x, used)) => {
                    check!(input.len() == $sl, "a truncated serde encoding is refused");
                    check!(used == input.len(), "serde decoding consumes exactly the fixed-size encoding");
                    let nb = x.serialize();
                    match <$ty>::deserialize(&nb) {
                        Ok(y) => {
                            check!(eq_bytes(&y.serialize(), &nb), "a value accepted through serde is rebuilt identically by the native decoder");
                            core::mem::forget(y);
                        }
                        Err(e) => {
                            check!(false, "serde accepted a value that the native decoder refuses (an invalid element, scalar or key bypassed validation)");
                            core::mem::forget(e);
                        }
                    }
                    match to_flat(&x) {
                        Ok(o) => check!(eq_bytes(o.bytes(), input), "serde re-encoding of a serde-decoded value is the input"),
                        Err(_) => check!(false, "a serde-decoded value serializes"),
                    }
                    cover!(true, "serde ok");
                    core::mem::forget(x);
                }
                Err(_) => {
                    cover!(input.len() == $sl, "serde err");
                }
            }
        }
        fn $rel(native: &[u8]) {
            let Ok(x) = <$ty>::deserialize(native) else { return };
            match to_flat(&x) {
                Ok(o) => {
                    check!(o.len == $sl, "serde encoding has the type's fixed length");
                    match from_flat::<$ty>(o.bytes()) {
                        Ok((y, used)) => {
                            check!(used == o.len, "reloading consumes everything that was saved");
                            check!(eq_bytes(&y.serialize(), native), "a state saved and reloaded through serde has the same native encoding");
                            match to_flat(&y) {
                                Ok(o2) => check!(eq_bytes(o2.bytes(), o.bytes()), "saving the reloaded state again gives the same bytes"),
                                Err(_) => check!(false, "the reloaded state serializes"),
                            }
                            cover!(true, "reloaded");
                            core::mem::forget(y);
                        }
                        Err(_) => check!(false, "a valid state saved through serde reloads"),
                    }
                }
                Err(_) => check!(false, "a valid state serializes through serde"),
            }
            core::mem::forget(x);
        }
    )* };
}

serde_cases! {
    a_reg_req, r_reg_req : RegistrationRequest<M>, serde_len = 1, native_len = 1;
    a_reg_resp, r_reg_resp : RegistrationResponse<M>, serde_len = 3, native_len = 3;
    a_reg_upload, r_reg_upload : RegistrationUpload<M>, serde_len = 54, native_len = 50;
    a_server_registration, r_server_registration : ServerRegistration<M>, serde_len = 54, native_len = 50;
    a_cred_req, r_cred_req : CredentialRequest<M>, serde_len = 35, native_len = 35;
    a_cred_resp, r_cred_resp : CredentialResponse<M>, serde_len = 117, native_len = 117;
    a_cred_fin, r_cred_fin : CredentialFinalization<M>, serde_len = 8, native_len = 8;
    a_setup, r_setup : ServerSetup<M>, serde_len = 14, native_len = 10;
    a_client_reg, r_client_reg : ClientRegistration<M>, serde_len = 2, native_len = 2;
    a_client_login, r_client_login : ClientLogin<M>, serde_len = 69, native_len = 69;
    a_server_login, r_server_login : ServerLogin<M>, serde_len = 24, native_len = 24;
}

/// persisted types through a format whose sequences may end early: every prefix of a valid serde encoding that is cut at
/// *any* position — in particular at a field boundary — is refused (no field is silently defaulted)
macro_rules! short_cases {
    ($( $name:ident : $ty:ty, serde_len = $sl:expr; )*) => { $(
        fn $name(full: &[u8]) {
            let mut cut = 0;
            while cut < $sl {
                match from_flat_short::<$ty>(&full[..cut]) {
                    Ok((x, _)) => {
                        check!(false, "a serde record with missing trailing fields is refused, not completed with defaults");
                        core::mem::forget(x);
                    }
                    Err(_) => {}
                }
                cut += 1;
            }
            match from_flat_short::<$ty>(&full[..$sl]) {
                Ok((x, used)) => {
                    check!(used == $sl, "complete record: everything consumed");
                    cover!(true, "complete ok");
                    core::mem::forget(x);
                }
                Err(_) => {}
            }
        }
    )* };
}
short_cases! {
    sh_setup : ServerSetup<M>, serde_len = 14;
    sh_client_reg : ClientRegistration<M>, serde_len = 2;
    sh_server_login : ServerLogin<M>, serde_len = 24;
    sh_reg_resp : RegistrationResponse<M>, serde_len = 3;
}

/// accept-direction on the exact length and one byte short
fn acc<const N: usize>(f: fn(&[u8])) {
    let buf = any_bytes::<N>();
    f(&buf[..N]);
    f(&buf[..N - 1]);
}
fn rel<const N: usize>(f: fn(&[u8])) {
    let buf = any_bytes::<N>();
    f(&buf[..]);
}

/// keys on their own (keypair.rs custom impls): PublicKey / PrivateKey / KeyPair over the model KE group
fn keys_accept(pkb: &[u8; 2], skb: &[u8; 1]) {
    match from_flat::<PublicKey<G241>>(pkb) {
        Ok((pk, used)) => {
            check!(used == 2, "public key: two bytes consumed");
            check!(super::h_decoders::v_pk(pkb), "a public key accepted through serde is a valid, canonically tagged, non-identity element");
            check!(eq_bytes(&pk.serialize(), pkb), "public key: serde-decoded value encodes to the input");
            check!(PublicKey::<G241>::deserialize(pkb).is_ok(), "public key: native decoder agrees");
            cover!(true, "pk ok");
        }
        Err(_) => {
            check!(!super::h_decoders::v_pk(pkb), "every valid public key decodes through serde");
            check!(PublicKey::<G241>::deserialize(pkb).is_err(), "public key: native decoder agrees on refusal");
            cover!(true, "pk err");
        }
    }
    match from_flat::<PrivateKey<G241>>(skb) {
        Ok((sk, used)) => {
            use crate::keypair::SecretKey;
            check!(used == 1, "private key: one byte consumed");
            check!(super::h_decoders::v_sk(skb[0]), "a private key accepted through serde is a non-zero scalar in range");
            check!(eq_bytes(&SecretKey::<G241>::serialize(&sk), skb), "private key: serde-decoded value encodes to the input");
            cover!(true, "sk ok");
            core::mem::forget(sk);
        }
        Err(_) => {
            check!(!super::h_decoders::v_sk(skb[0]), "every valid private key decodes through serde");
            cover!(true, "sk err");
        }
    }
}

harnesses! {
    fn ds_keys [unwind = 8] {
        let pkb = any_bytes::<2>();
        let skb = any_bytes::<1>();
        keys_accept(&pkb, &skb);
    }
    fn ds_short_setup [unwind = 18] { rel::<14>(sh_setup); }
    fn ds_short_client_reg [unwind = 8] { rel::<2>(sh_client_reg); }
    fn ds_short_server_login [unwind = 30] { rel::<24>(sh_server_login); }
    fn ds_short_reg_resp [unwind = 8] { rel::<3>(sh_reg_resp); }
    fn ds_reg_req [unwind = 8] { acc::<1>(a_reg_req); }
    fn ds_reg_resp [unwind = 8] { acc::<3>(a_reg_resp); }
    fn ds_reg_upload [unwind = 58] { acc::<54>(a_reg_upload); }
    fn ds_server_registration [unwind = 58] { acc::<54>(a_server_registration); }
    fn ds_cred_req [unwind = 40] { acc::<35>(a_cred_req); }
    fn ds_cred_resp [unwind = 122] { acc::<117>(a_cred_resp); }
    fn ds_cred_fin [unwind = 12] { acc::<8>(a_cred_fin); }
    fn ds_setup [unwind = 18] { acc::<14>(a_setup); }
    fn ds_client_reg [unwind = 8] { acc::<2>(a_client_reg); }
    fn ds_client_login [unwind = 74] { acc::<69>(a_client_login); }
    fn ds_server_login [unwind = 30] { acc::<24>(a_server_login); }

    fn dr_reg_req [unwind = 8] { rel::<1>(r_reg_req); }
    fn dr_reg_resp [unwind = 8] { rel::<3>(r_reg_resp); }
    fn dr_reg_upload [unwind = 58] { rel::<50>(r_reg_upload); }
    fn dr_server_registration [unwind = 58] { rel::<50>(r_server_registration); }
    fn dr_cred_req [unwind = 40] { rel::<35>(r_cred_req); }
    fn dr_cred_resp [unwind = 122] { rel::<117>(r_cred_resp); }
    fn dr_cred_fin [unwind = 12] { rel::<8>(r_cred_fin); }
    fn dr_setup [unwind = 18] { rel::<10>(r_setup); }
    fn dr_client_reg [unwind = 8] { rel::<2>(r_client_reg); }
    fn dr_client_login [unwind = 74] { rel::<69>(r_client_login); }
    fn dr_server_login [unwind = 30] { rel::<24>(r_server_login); }
}
