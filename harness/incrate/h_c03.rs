//! S1 — C03: `ServerLogin::finish` is exact (DESIGN.md §3.3 S1).
use super::model::*;
use super::spec_prims as sp;
use super::vk::*;
use crate::errors::ProtocolError;
use crate::{CredentialFinalization, ServerLogin};

harnesses! {
    /// For *every* pending server state (24 bytes through the real decoder) and *every* 8-byte
    /// finalization: `finish` is Ok(k) iff mac == HMAC(km3, hashed_transcript); then k == session_key;
    /// otherwise the error is InvalidLoginError.
    fn c03_server_finish_exact [unwind = 34] {
        let st = any_bytes::<24>();
        let mac = any_bytes::<8>();
        let sl = ServerLogin::<M>::deserialize(&st);
        check!(sl.is_ok(), "every 24-byte string is a server login state");
        let Ok(sl) = sl else { return };
        let fin = CredentialFinalization::<M>::deserialize(&mac);
        check!(fin.is_ok(), "every 8-byte string decodes as finalization");
        let Ok(fin) = fin else { return };
        let expect = sp::hmac(&st[0..8], &[&st[8..16]]);
        let matches = eq_bytes(&expect, &mac);
        match sl.finish(fin) {
            Ok(res) => {
                check!(matches, "finish Ok only on the matching MAC");
                check!(eq_bytes(&res.session_key, &st[16..24]), "session key is the pending state's");
                cover!(true, "accept");
                core::mem::forget(res);
            }
            Err(e) => {
                check!(!matches, "matching MAC is accepted");
                check!(matches!(e, ProtocolError::InvalidLoginError), "mismatch reported as InvalidLoginError");
                cover!(true, "reject");
            }
        }
    }
}
