//! S12 — length prefixes and identity defaulting (DESIGN.md §3.3 S12): `i2osp`, `Input::{from,from_owned,from_label}`,
//! `bytestrings_from_identifiers`, for *every* usize length (a 131073-byte zero static supplies the slices:
//! only `.len()` matters to these functions).
use generic_array::typenum::{U1, U2};
use generic_array::GenericArray;

use super::model::*;
use super::vk::*;
use crate::opaque::{bytestrings_from_identifiers, Identifiers};
use crate::serialization::{i2osp, Input, MacExt, UpdateExt};
use digest::Digest;
use hmac::{Hmac, Mac};
use super::spec_prims as sp;

static BIG: [u8; 131073] = [0u8; 131073];

fn take3<'a>(mut it: impl Iterator<Item = &'a [u8]>) -> (Option<&'a [u8]>, Option<&'a [u8]>, Option<&'a [u8]>, bool) {
    let a = it.next();
    let b = it.next();
    let c = it.next();
    let end = it.next().is_none();
    (a, b, c, end)
}

/// `Input::<U2>::from(x)` iterates as I2OSP(len,2) ‖ x — exactly two parts
fn check_id<'a>(it: impl Iterator<Item = &'a [u8]>, want_ptr: *const u8, want_len: usize) {
    let (a, b, c, end) = take3(it);
    check!(a.is_some() && b.is_some(), "length prefix and value are both emitted");
    if let (Some(a), Some(b)) = (a, b) {
        check!(a.len() == 2 && a[0] == (want_len >> 8) as u8 && a[1] == want_len as u8, "2-byte big-endian length prefix");
        check!(b.len() == want_len && b.as_ptr() == want_ptr, "the value follows verbatim (same bytes, full length)");
    }
    check!(c.is_none() && end, "nothing else is emitted");
}

harnesses! {
    /// I2OSP(n, 1) and I2OSP(n, 2) for every usize n
    fn s12_i2osp_all_usize [unwind = 10] {
        let n = any_usize();
        match i2osp::<U1>(n) {
            Ok(b) => { check!(n <= 255, "I2OSP(n,1) refuses n >= 256"); check!(b[0] == n as u8, "I2OSP(n,1) value"); cover!(n == 255, "255 fits"); }
            Err(_) => { check!(n >= 256, "I2OSP(n,1) accepts every n <= 255"); cover!(n == 256, "256 refused"); }
        }
        match i2osp::<U2>(n) {
            Ok(b) => { check!(n <= 65535, "I2OSP(n,2) refuses n >= 65536"); check!(b[0] == (n >> 8) as u8 && b[1] == n as u8, "I2OSP(n,2) big-endian value"); cover!(n == 65535, "65535 fits"); }
            Err(_) => { check!(n >= 65536, "I2OSP(n,2) accepts every n <= 65535"); cover!(n == 65536, "65536 refused"); }
        }
    }

    /// Input::<U2>::from(x) for every length 0..=131073: Ok <=> len <= 65535, iterates as prefix ‖ x
    fn s12_input_from_all_lengths [unwind = 10] {
        let n = any_usize();
        assume(n <= 131073);
        let x = &BIG[..n];
        match Input::<U2>::from(x) {
            Ok(inp) => { check!(n <= 65535, "over-long input is refused, not truncated or wrapped"); check_id(inp.iter(), x.as_ptr(), n); cover!(n == 65535, "65535"); cover!(n == 0, "empty"); }
            Err(_) => { check!(n >= 65536, "every encodable length is accepted"); cover!(n == 65536, "65536 refused"); }
        }
        match Input::<U1>::from(x) {
            Ok(inp) => { check!(n <= 255, "1-byte prefix: over-long input refused");
                         let arr = inp.to_array_2();
                         check!(arr[0].len() == 1 && arr[0][0] == n as u8 && arr[1].len() == n && arr[1].as_ptr() == x.as_ptr(), "1-byte prefix ‖ value");
                         cover!(n == 255, "255"); }
            Err(_) => { check!(n >= 256, "1-byte prefix: every length <= 255 accepted"); cover!(n == 256, "256 refused"); }
        }
    }

    /// Input::<U1>::from_label("OPAQUE-", label): prefix = len("OPAQUE-")+len(label), parts verbatim
    fn s12_input_from_label [unwind = 10] {
        let n = any_usize();
        assume(n <= 300);
        let label = &BIG[..n];
        let opaque: &[u8] = b"OPAQUE-";
        match Input::<U1>::from_label(opaque, label) {
            Ok(inp) => {
                check!(n + 7 <= 255, "label that does not fit one length byte is refused");
                let a = inp.to_array_3();
                check!(a[0].len() == 1 && a[0][0] == (n + 7) as u8, "length byte covers prefix and label");
                check!(a[1].as_ptr() == opaque.as_ptr() && a[1].len() == 7 && a[2].as_ptr() == label.as_ptr() && a[2].len() == n, "prefix and label verbatim");
                let (x, y, z, end) = take3(inp.iter());
                check!(x.map(|s| s.len()) == Some(1) && y.map(|s| s.len()) == Some(7) && z.map(|s| s.len()) == Some(n) && end, "iter() yields the same three parts");
                cover!(n == 248, "longest label");
            }
            Err(_) => { check!(n + 7 >= 256, "every label that fits is accepted"); cover!(n == 249, "249 refused"); }
        }
    }

    /// bytestrings_from_identifiers: absent identity == that party's serialized public key, explicit identity
    /// verbatim, client and server never swapped, over-long identity refused
    fn s12_identifiers_defaulting [unwind = 10] {
        let cpk = any_bytes::<2>();
        let spk = any_bytes::<2>();
        let nc = any_usize();
        let ns = any_usize();
        assume(nc <= 70000 && ns <= 70000);
        let has_c = any_bool();
        let has_s = any_bool();
        let c = &BIG[..nc];
        let s = &BIG[65536..65536 + 1]; // a different object for the server identity when short
        let s: &[u8] = if ns <= 1 { &s[..ns] } else { &BIG[..ns] };
        let ids = Identifiers { client: if has_c { Some(c) } else { None }, server: if has_s { Some(s) } else { None } };
        let r = bytestrings_from_identifiers::<G241>(ids, GenericArray::from(cpk), GenericArray::from(spk));
        let c_ok = !has_c || nc <= 65535;
        let s_ok = !has_s || ns <= 65535;
        match r {
            Ok((idu, ids_)) => {
                check!(c_ok && s_ok, "an identity longer than 65535 bytes is refused");
                let (a, b, cc, end) = take3(idu.iter());
                check!(a.is_some() && b.is_some() && cc.is_none() && end, "client identity: prefix and value");
                if let (Some(a), Some(b)) = (a, b) {
                    if has_c {
                        check!(a[0] == (nc >> 8) as u8 && a[1] == nc as u8 && b.len() == nc && b.as_ptr() == c.as_ptr(), "explicit client identity verbatim");
                    } else {
                        check!(a[0] == 0 && a[1] == 2 && b.len() == 2 && b[0] == cpk[0] && b[1] == cpk[1], "absent client identity == client public key");
                    }
                }
                let (a, b, cc, end) = take3(ids_.iter());
                check!(a.is_some() && b.is_some() && cc.is_none() && end, "server identity: prefix and value");
                if let (Some(a), Some(b)) = (a, b) {
                    if has_s {
                        check!(a[0] == (ns >> 8) as u8 && a[1] == ns as u8 && b.len() == ns && b.as_ptr() == s.as_ptr(), "explicit server identity verbatim");
                    } else {
                        check!(a[0] == 0 && a[1] == 2 && b.len() == 2 && b[0] == spk[0] && b[1] == spk[1], "absent server identity == server public key");
                    }
                }
                cover!(has_c && !has_s, "explicit client, default server");
                cover!(!has_c && has_s && ns == 65535, "default client, 65535-byte server");
            }
            Err(_) => { check!(!(c_ok && s_ok), "every encodable pair of identities is accepted"); cover!(true, "refused"); }
        }
    }

    /// MacExt::update_iter absorbs every part completely and in order, also when one part is much longer than a hash
    /// block (130 bytes) or when parts are empty: MAC == RFC 2104 HMAC of the concatenation
    fn s12_mac_update_iter_long [unwind = 140] {
        let key = any_bytes::<8>();
        let a = any_bytes::<2>();
        let b = any_bytes::<130>();
        let c = any_bytes::<3>();
        let mut m = Hmac::<MHash>::new_from_slice(&key).unwrap();
        m.update_iter([&a[..], &b[..], &c[..0], &c[..]].into_iter());
        let got = m.finalize().into_bytes();
        check!(eq_bytes(&got, &sp::hmac(&key, &[&a, &b, &c])), "update_iter == MAC over the concatenation of all parts");
        cover!(true, "reached");
    }

    /// UpdateExt::chain_iter absorbs every part completely and in order (one 70-byte part, one empty part)
    fn s12_digest_chain_iter_long [unwind = 80] {
        let a = any_bytes::<3>();
        let b = any_bytes::<70>();
        let c = any_bytes::<1>();
        let got = MHash::new().chain_iter([&a[..], &b[..], &b[..0], &c[..]].into_iter()).finalize();
        check!(eq_bytes(&got, &sp::hash(&[&a, &b, &c])), "chain_iter == hash of the concatenation of all parts");
        cover!(true, "reached");
    }
}
