// `check!(cond, "msg")` / `cover!(cond, "msg")`: Kani assertion / cover property, or the replay shim's recorder.
#[cfg(kani)]
macro_rules! check { ($c:expr, $m:literal) => { kani::assert($c, $m) }; }
#[cfg(kani)]
macro_rules! cover { ($c:expr, $m:literal) => { kani::cover!($c, $m) }; }
#[cfg(not(kani))]
macro_rules! check { ($c:expr, $m:literal) => { $crate::verif_kani::vk::check_fn($c, $m) }; }
#[cfg(not(kani))]
macro_rules! cover { ($c:expr, $m:literal) => { $crate::verif_kani::vk::cover_fn($c, $m) }; }
