//! `flat` — a minimal serde data format written for the harnesses (DESIGN.md D-serde).
//!
//! It moves bytes verbatim: `u8` is one byte, tuples / structs / newtype structs / tuple structs are the
//! concatenation of their fields, unit values are empty, a unit enum variant is its index as a little-endian u32. For the fixed-size types of opaque-ke (everything is a
//! `GenericArray<u8, N>` behind derive-generated struct visitors and the hand-written key (de)serializers) this is
//! byte-for-byte what `bincode` 1.x writes; every other serde data-model item is refused with an error. bincode and
//! serde_json themselves (heap-allocating third-party parsers) are not encoded — the claim is about opaque-ke's
//! `Serialize` / `Deserialize` implementations: the derive-generated visitors, `keypair.rs`'s custom impls and voprf's
//! element / scalar adapters, all of which are driven here exactly as a real format drives them.
#![allow(dead_code, missing_docs)]

use core::fmt;

use serde::de::{self, DeserializeSeed, SeqAccess, Visitor};
use serde::ser::{self, Impossible, Serialize};

pub const CAP: usize = 160;

#[derive(Debug)]
pub struct FlatErr;
impl fmt::Display for FlatErr {
    fn fmt(&self, f: &mut fmt::Formatter<'_>) -> fmt::Result {
        f.write_str("flat")
    }
}
impl ser::StdError for FlatErr {}
impl ser::Error for FlatErr {
    fn custom<T: fmt::Display>(_msg: T) -> Self {
        FlatErr
    }
}
impl de::Error for FlatErr {
    fn custom<T: fmt::Display>(_msg: T) -> Self {
        FlatErr
    }
}

pub struct FlatOut {
    pub buf: [u8; CAP],
    pub len: usize,
}
impl FlatOut {
    pub fn new() -> Self {
        FlatOut { buf: [0u8; CAP], len: 0 }
    }
    pub fn bytes(&self) -> &[u8] {
        &self.buf[..self.len]
    }
}

pub fn to_flat<T: Serialize>(v: &T) -> Result<FlatOut, FlatErr> {
    let mut out = FlatOut::new();
    v.serialize(&mut out)?;
    Ok(out)
}

/// decode one value from the front of `input`; returns it with the number of bytes consumed
pub fn from_flat<'de, T: de::Deserialize<'de>>(input: &'de [u8]) -> Result<(T, usize), FlatErr> {
    let mut d = FlatDe { input, pos: 0, short_seq: false };
    let v = T::deserialize(&mut d)?;
    Ok((v, d.pos))
}

/// the same, but as a format whose sequences may *end early*: when the input is exhausted at an element boundary the
/// sequence reports "no more elements" (what a self-describing format does for a record written without its trailing
/// fields) instead of failing on the missing byte. A decoder that fills absent fields with defaults shows up here.
pub fn from_flat_short<'de, T: de::Deserialize<'de>>(input: &'de [u8]) -> Result<(T, usize), FlatErr> {
    let mut d = FlatDe { input, pos: 0, short_seq: true };
    let v = T::deserialize(&mut d)?;
    Ok((v, d.pos))
}

pub struct Compound<'a>(&'a mut FlatOut);

macro_rules! refuse {
    ($($f:ident($($t:ty),*);)*) => { $( fn $f(self $(, _: $t)*) -> Result<(), FlatErr> { Err(FlatErr) } )* };
}

impl<'a> ser::Serializer for &'a mut FlatOut {
    type Ok = ();
    type Error = FlatErr;
    type SerializeSeq = Impossible<(), FlatErr>;
    type SerializeTuple = Compound<'a>;
    type SerializeTupleStruct = Compound<'a>;
    type SerializeTupleVariant = Impossible<(), FlatErr>;
    type SerializeMap = Impossible<(), FlatErr>;
    type SerializeStruct = Compound<'a>;
    type SerializeStructVariant = Impossible<(), FlatErr>;

    fn serialize_u8(self, v: u8) -> Result<(), FlatErr> {
        if self.len >= CAP {
            return Err(FlatErr);
        }
        self.buf[self.len] = v;
        self.len += 1;
        Ok(())
    }
    refuse! {
        serialize_bool(bool); serialize_i8(i8); serialize_i16(i16); serialize_i32(i32); serialize_i64(i64);
        serialize_u16(u16); serialize_u32(u32); serialize_u64(u64); serialize_f32(f32); serialize_f64(f64);
        serialize_char(char); serialize_str(&str); serialize_bytes(&[u8]); serialize_none();
    }
    /// a unit variant is its index as a little-endian u32 (what bincode 1.x writes)
    fn serialize_unit_variant(self, _: &'static str, idx: u32, _: &'static str) -> Result<(), FlatErr> {
        if self.len + 4 > CAP {
            return Err(FlatErr);
        }
        let b = idx.to_le_bytes();
        let mut i = 0;
        while i < 4 {
            self.buf[self.len + i] = b[i];
            i += 1;
        }
        self.len += 4;
        Ok(())
    }
    fn serialize_some<T: ?Sized + Serialize>(self, _: &T) -> Result<(), FlatErr> {
        Err(FlatErr)
    }
    fn serialize_unit(self) -> Result<(), FlatErr> {
        Ok(())
    }
    fn serialize_unit_struct(self, _: &'static str) -> Result<(), FlatErr> {
        Ok(())
    }
    fn serialize_newtype_struct<T: ?Sized + Serialize>(self, _: &'static str, v: &T) -> Result<(), FlatErr> {
        v.serialize(self)
    }
    fn serialize_newtype_variant<T: ?Sized + Serialize>(self, _: &'static str, _: u32, _: &'static str, _: &T) -> Result<(), FlatErr> {
        Err(FlatErr)
    }
    fn serialize_seq(self, _: Option<usize>) -> Result<Self::SerializeSeq, FlatErr> {
        Err(FlatErr)
    }
    fn serialize_tuple(self, _: usize) -> Result<Compound<'a>, FlatErr> {
        Ok(Compound(self))
    }
    fn serialize_tuple_struct(self, _: &'static str, _: usize) -> Result<Compound<'a>, FlatErr> {
        Ok(Compound(self))
    }
    fn serialize_tuple_variant(self, _: &'static str, _: u32, _: &'static str, _: usize) -> Result<Self::SerializeTupleVariant, FlatErr> {
        Err(FlatErr)
    }
    fn serialize_map(self, _: Option<usize>) -> Result<Self::SerializeMap, FlatErr> {
        Err(FlatErr)
    }
    fn serialize_struct(self, _: &'static str, _: usize) -> Result<Compound<'a>, FlatErr> {
        Ok(Compound(self))
    }
    fn serialize_struct_variant(self, _: &'static str, _: u32, _: &'static str, _: usize) -> Result<Self::SerializeStructVariant, FlatErr> {
        Err(FlatErr)
    }
    fn collect_str<T: ?Sized + fmt::Display>(self, _: &T) -> Result<(), FlatErr> {
        Err(FlatErr)
    }
    fn is_human_readable(&self) -> bool {
        false
    }
}

impl<'a> ser::SerializeTuple for Compound<'a> {
    type Ok = ();
    type Error = FlatErr;
    fn serialize_element<T: ?Sized + Serialize>(&mut self, v: &T) -> Result<(), FlatErr> {
        v.serialize(&mut *self.0)
    }
    fn end(self) -> Result<(), FlatErr> {
        Ok(())
    }
}
impl<'a> ser::SerializeTupleStruct for Compound<'a> {
    type Ok = ();
    type Error = FlatErr;
    fn serialize_field<T: ?Sized + Serialize>(&mut self, v: &T) -> Result<(), FlatErr> {
        v.serialize(&mut *self.0)
    }
    fn end(self) -> Result<(), FlatErr> {
        Ok(())
    }
}
impl<'a> ser::SerializeStruct for Compound<'a> {
    type Ok = ();
    type Error = FlatErr;
    fn serialize_field<T: ?Sized + Serialize>(&mut self, _: &'static str, v: &T) -> Result<(), FlatErr> {
        v.serialize(&mut *self.0)
    }
    fn end(self) -> Result<(), FlatErr> {
        Ok(())
    }
}

pub struct FlatDe<'de> {
    pub input: &'de [u8],
    pub pos: usize,
    pub short_seq: bool,
}

struct Seq<'a, 'de> {
    de: &'a mut FlatDe<'de>,
    left: usize,
}
impl<'a, 'de> SeqAccess<'de> for Seq<'a, 'de> {
    type Error = FlatErr;
    fn next_element_seed<T: DeserializeSeed<'de>>(&mut self, seed: T) -> Result<Option<T::Value>, FlatErr> {
        if self.left == 0 || (self.de.short_seq && self.de.pos >= self.de.input.len()) {
            return Ok(None);
        }
        self.left -= 1;
        seed.deserialize(&mut *self.de).map(Some)
    }
    fn size_hint(&self) -> Option<usize> {
        Some(self.left)
    }
}

/// enums: only unit variants, index as little-endian u32
struct UnitEnum<'a, 'de> {
    de: &'a mut FlatDe<'de>,
}
impl<'a, 'de> de::EnumAccess<'de> for UnitEnum<'a, 'de> {
    type Error = FlatErr;
    type Variant = UnitOnly;
    fn variant_seed<S: DeserializeSeed<'de>>(self, seed: S) -> Result<(S::Value, UnitOnly), FlatErr> {
        use serde::de::IntoDeserializer;
        if self.de.pos + 4 > self.de.input.len() {
            return Err(FlatErr);
        }
        let p = self.de.pos;
        let idx = u32::from_le_bytes([self.de.input[p], self.de.input[p + 1], self.de.input[p + 2], self.de.input[p + 3]]);
        self.de.pos += 4;
        let d: serde::de::value::U32Deserializer<FlatErr> = idx.into_deserializer();
        let v = seed.deserialize(d)?;
        Ok((v, UnitOnly))
    }
}
struct UnitOnly;
impl<'de> de::VariantAccess<'de> for UnitOnly {
    type Error = FlatErr;
    fn unit_variant(self) -> Result<(), FlatErr> {
        Ok(())
    }
    fn newtype_variant_seed<T: DeserializeSeed<'de>>(self, _: T) -> Result<T::Value, FlatErr> {
        Err(FlatErr)
    }
    fn tuple_variant<V: Visitor<'de>>(self, _: usize, _: V) -> Result<V::Value, FlatErr> {
        Err(FlatErr)
    }
    fn struct_variant<V: Visitor<'de>>(self, _: &'static [&'static str], _: V) -> Result<V::Value, FlatErr> {
        Err(FlatErr)
    }
}

macro_rules! refuse_de {
    ($($f:ident)*) => { $( fn $f<V: Visitor<'de>>(self, _: V) -> Result<V::Value, FlatErr> { Err(FlatErr) } )* };
}

impl<'a, 'de> de::Deserializer<'de> for &'a mut FlatDe<'de> {
    type Error = FlatErr;

    fn deserialize_u8<V: Visitor<'de>>(self, v: V) -> Result<V::Value, FlatErr> {
        if self.pos >= self.input.len() {
            return Err(FlatErr);
        }
        let b = self.input[self.pos];
        self.pos += 1;
        v.visit_u8(b)
    }
    refuse_de! {
        deserialize_any deserialize_bool deserialize_i8 deserialize_i16 deserialize_i32 deserialize_i64
        deserialize_u16 deserialize_u32 deserialize_u64 deserialize_f32 deserialize_f64 deserialize_char
        deserialize_str deserialize_string deserialize_bytes deserialize_byte_buf deserialize_option
        deserialize_seq deserialize_map deserialize_identifier deserialize_ignored_any
    }
    fn deserialize_unit<V: Visitor<'de>>(self, v: V) -> Result<V::Value, FlatErr> {
        v.visit_unit()
    }
    fn deserialize_unit_struct<V: Visitor<'de>>(self, _: &'static str, v: V) -> Result<V::Value, FlatErr> {
        v.visit_unit()
    }
    fn deserialize_newtype_struct<V: Visitor<'de>>(self, _: &'static str, v: V) -> Result<V::Value, FlatErr> {
        v.visit_newtype_struct(self)
    }
    fn deserialize_tuple<V: Visitor<'de>>(self, len: usize, v: V) -> Result<V::Value, FlatErr> {
        v.visit_seq(Seq { de: self, left: len })
    }
    fn deserialize_tuple_struct<V: Visitor<'de>>(self, _: &'static str, len: usize, v: V) -> Result<V::Value, FlatErr> {
        v.visit_seq(Seq { de: self, left: len })
    }
    fn deserialize_struct<V: Visitor<'de>>(self, _: &'static str, fields: &'static [&'static str], v: V) -> Result<V::Value, FlatErr> {
        v.visit_seq(Seq { de: self, left: fields.len() })
    }
    fn deserialize_enum<V: Visitor<'de>>(self, _: &'static str, _: &'static [&'static str], v: V) -> Result<V::Value, FlatErr> {
        v.visit_enum(UnitEnum { de: self })
    }
    fn is_human_readable(&self) -> bool {
        false
    }
}
