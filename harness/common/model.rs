//! Model ciphersuite (DESIGN.md §2.3): everything the real generic code of opaque-ke / voprf /
//! hmac / hkdf is monomorphised over in the harnesses. All of it is part of the claim.
//!
//! * `MHash`  — Merkle–Damgård hash, 16-byte block, 8-byte output, through the real
//!              `digest::core_api::CoreWrapper`; its compression function is an *uninterpreted
//!              function*: a table of (input, output) pairs whose outputs are fresh symbolic values
//!              (Ackermann encoding done at run time). Equal inputs give equal outputs, nothing
//!              else is known about it. Because every output is a `vk::any_u64()` the solver's
//!              interpretation is part of the concrete-playback values and replays natively.
//! * `G251`   — OPRF group: additive group Z_251, element and scalar one byte, identity 0,
//!              decoders accept exactly 1..=250.
//! * `G241`   — key-exchange group: Z_241, generator 7, public key two bytes `0x5a ‖ v`
//!              (v in 1..=240), secret key one byte (1..=240).
//! * `Tape`   — RNG whose bytes are symbolic.
//! * `MKsf`   — recording / failing key-stretching function.
//! * `MSecretKey` — recording / failing externally-held key.
#![allow(dead_code, unsafe_code, missing_docs, static_mut_refs)]

use core::ops::{Add, Mul, Sub};

use digest::core_api::{
    AlgorithmName, Block, BlockSizeUser, Buffer, BufferKindUser, CoreWrapper, FixedOutputCore,
    UpdateCore,
};
use digest::{FixedOutput, HashMarker, Output, OutputSizeUser, Reset, Update};
use generic_array::typenum::{IsLess, IsLessOrEqual, U1, U16, U2, U256, U8};
use generic_array::{ArrayLength, GenericArray};
use rand::{CryptoRng, RngCore};
use subtle::{Choice, ConstantTimeEq};
use zeroize::Zeroize;

use super::vk;

// ---------------------------------------------------------------------------------------------
// uninterpreted compression function
// ---------------------------------------------------------------------------------------------

pub const UF_CAP: usize = 256;
pub static mut UF_N: usize = 0;
static mut UF_S: [u64; UF_CAP] = [0; UF_CAP];
static mut UF_A: [u64; UF_CAP] = [0; UF_CAP];
static mut UF_B: [u64; UF_CAP] = [0; UF_CAP];
static mut UF_O: [u64; UF_CAP] = [0; UF_CAP];
pub static mut UF_OVERFLOW: bool = false;

/// forget every recorded application (native replay runs several harnesses in one process)
pub fn uf_reset() {
    unsafe {
        UF_N = 0;
        UF_OVERFLOW = false;
    }
}

/// number of applications of the compression function so far
pub fn uf_calls() -> usize {
    unsafe { UF_N }
}

/// Native (replay) mode: a fixed, well-mixing function. A counterexample found under Kani holds for *some* interpretation
/// of the uninterpreted function; the replay runs the harness on the recorded inputs with this one. Violations that do not
/// depend on particular hash values (almost all: wrong data flow, wrong decision, missing check) reproduce; one that needs a
/// specific collision does not, and is then reported as inconclusive, never as a violation.
#[cfg(not(kani))]
#[inline(never)]
pub fn mix(s: u64, a: u64, b: u64) -> u64 {
    unsafe {
        UF_N += 1;
    }
    let mut x = s ^ 0x9e37_79b9_7f4a_7c15;
    for w in [a, b, s.rotate_left(17)] {
        x = (x ^ w).wrapping_mul(0xbf58_476d_1ce4_e5b9);
        x ^= x >> 29;
        x = x.wrapping_mul(0x94d0_49bb_1331_11eb);
        x ^= x >> 32;
    }
    x
}

/// Table mode (Kani with `--cfg verif_uf_table`, kept for experiments): Ackermann encoding at run time.
#[cfg(all(kani, verif_uf_table))]
#[inline(never)]
pub fn mix(s: u64, a: u64, b: u64) -> u64 {
    unsafe {
        // the number of recorded applications stays concrete: every call appends
        let mut out = vk::any_u64();
        let n = UF_N;
        let mut i = 0;
        while i < n {
            if UF_S[i] == s && UF_A[i] == a && UF_B[i] == b {
                out = UF_O[i];
            }
            i += 1;
        }
        if n < UF_CAP {
            UF_S[n] = s;
            UF_A[n] = a;
            UF_B[n] = b;
            UF_O[n] = out;
            UF_N = n + 1;
        } else {
            UF_OVERFLOW = true;
        }
        out
    }
}

// Default mode under Kani: CBMC's own uninterpreted function symbol (harness/common/uf.c, linked by the
// driver). Same semantics as the table (a function, nothing else known), far cheaper for the solver; when a
// harness fails in this mode the driver re-runs it in table mode to obtain replayable values.
#[cfg(all(kani, not(verif_uf_table)))]
extern "C" {
    fn uf_mix(s: u64, a: u64, b: u64) -> u64;
}
#[cfg(all(kani, not(verif_uf_table)))]
#[inline(never)]
pub fn mix(s: u64, a: u64, b: u64) -> u64 {
    unsafe {
        UF_N += 1;
        uf_mix(s, a, b)
    }
}

// ---------------------------------------------------------------------------------------------
// model hash
// ---------------------------------------------------------------------------------------------

#[derive(Clone)]
pub struct MCore {
    state: u64,
    nblocks: u64,
}

impl Default for MCore {
    fn default() -> Self {
        Self {
            state: 0x6a09_e667_f3bc_c908,
            nblocks: 0,
        }
    }
}

#[inline(always)]
fn rd(b: &[u8]) -> u64 {
    u64::from_le_bytes([b[0], b[1], b[2], b[3], b[4], b[5], b[6], b[7]])
}

impl HashMarker for MCore {}
impl BlockSizeUser for MCore {
    type BlockSize = U16;
}
impl BufferKindUser for MCore {
    type BufferKind = digest::block_buffer::Eager;
}
impl OutputSizeUser for MCore {
    type OutputSize = U8;
}
impl UpdateCore for MCore {
    fn update_blocks(&mut self, blocks: &[Block<Self>]) {
        for b in blocks {
            self.state = mix(self.state, rd(&b[0..8]), rd(&b[8..16]));
            self.nblocks += 1;
        }
    }
}
impl FixedOutputCore for MCore {
    fn finalize_fixed_core(&mut self, buffer: &mut Buffer<Self>, out: &mut Output<Self>) {
        let total = self.nblocks * 16 + buffer.get_pos() as u64;
        let mut st = self.state;
        buffer.digest_pad(0x80, &total.to_le_bytes(), |b| {
            st = mix(st, rd(&b[0..8]), rd(&b[8..16]))
        });
        vk::put(out, &st.to_le_bytes());
    }
}
impl Reset for MCore {
    fn reset(&mut self) {
        *self = Self::default();
    }
}
impl AlgorithmName for MCore {
    fn write_alg_name(f: &mut core::fmt::Formatter<'_>) -> core::fmt::Result {
        f.write_str("Model")
    }
}

pub type MHash = CoreWrapper<MCore>;
pub const NH: usize = 8;
pub const NB: usize = 16;

/// hash a list of byte strings, each absorbed as is (helper for the model groups / reference)
pub fn h_concat<H: Default + Update + FixedOutput>(parts: &[&[u8]]) -> Output<H> {
    let mut h = H::default();
    for p in parts {
        h.update(p);
    }
    h.finalize_fixed()
}

/// `hash(tag ‖ I2OSP(len(input),2) ‖ input ‖ I2OSP(len(dst),2) ‖ dst)` where `input` / `dst` are the
/// concatenations of the given parts (as in expand_message_xmd the chunking is irrelevant) — an injective
/// encoding of (tag, input, dst); the first digest byte is what the model groups map into their range.
fn model_hash_to_byte<H: Default + Update + FixedOutput>(tag: u8, input: &[&[u8]], dst: &[&[u8]]) -> u8 {
    let mut h = H::default();
    h.update(&[tag]);
    let mut n = 0usize;
    for p in input {
        n += p.len();
    }
    h.update(&(n as u16).to_be_bytes());
    for p in input {
        h.update(p);
    }
    let mut n = 0usize;
    for p in dst {
        n += p.len();
    }
    h.update(&(n as u16).to_be_bytes());
    for p in dst {
        h.update(p);
    }
    let d = h.finalize_fixed();
    d[0]
}

// ---------------------------------------------------------------------------------------------
// OPRF group Z_251
// ---------------------------------------------------------------------------------------------

pub const P1: u16 = 251;

#[derive(Clone, Copy, Debug, PartialEq, Eq, PartialOrd, Ord, Hash)]
pub struct E251(pub u8);
#[derive(Clone, Copy, Debug, PartialEq, Eq, PartialOrd, Ord, Hash)]
pub struct S251(pub u8);

impl Zeroize for E251 {
    fn zeroize(&mut self) {
        self.0 = 0
    }
}
impl Zeroize for S251 {
    fn zeroize(&mut self) {
        self.0 = 0
    }
}
impl ConstantTimeEq for E251 {
    fn ct_eq(&self, o: &Self) -> Choice {
        Choice::from((self.0 == o.0) as u8)
    }
}
impl ConstantTimeEq for S251 {
    fn ct_eq(&self, o: &Self) -> Choice {
        Choice::from((self.0 == o.0) as u8)
    }
}
#[inline(always)]
pub fn mulmod(a: u8, b: u8, p: u16) -> u8 {
    ((a as u16 * b as u16) % p) as u8
}
#[inline(always)]
pub fn addmod(a: u8, b: u8, p: u16) -> u8 {
    ((a as u16 + b as u16) % p) as u8
}
impl<'a> Add<&'a E251> for E251 {
    type Output = E251;
    fn add(self, o: &E251) -> E251 {
        E251(addmod(self.0, o.0, P1))
    }
}
impl<'a> Mul<&'a S251> for E251 {
    type Output = E251;
    fn mul(self, o: &S251) -> E251 {
        E251(mulmod(self.0, o.0, P1))
    }
}
impl<'a> Add<&'a S251> for S251 {
    type Output = S251;
    fn add(self, o: &S251) -> S251 {
        S251(addmod(self.0, o.0, P1))
    }
}
impl<'a> Sub<&'a S251> for S251 {
    type Output = S251;
    fn sub(self, o: &S251) -> S251 {
        S251(addmod(self.0, (P1 as u8).wrapping_sub(o.0) % (P1 as u8), P1))
    }
}
impl<'a> Mul<&'a S251> for S251 {
    type Output = S251;
    fn mul(self, o: &S251) -> S251 {
        S251(mulmod(self.0, o.0, P1))
    }
}

/// multiplicative inverses mod 251 (0 ↦ 0); a constant table: a symbolic index into it is an ite chain,
/// far cheaper for the SAT solver than two copies of a square-and-multiply circuit to be proved equal
pub static INV251: [u8; 251] = [0, 1, 126, 84, 63, 201, 42, 36, 157, 28, 226, 137, 21, 58, 18, 67, 204, 192, 14, 185, 113, 12, 194, 131, 136, 241, 29, 93, 9, 26, 159, 81, 102, 213, 96, 208, 7, 95, 218, 103, 182, 49, 6, 216, 97, 106, 191, 235, 68, 41, 246, 64, 140, 90, 172, 178, 130, 229, 13, 234, 205, 107, 166, 4, 51, 112, 232, 15, 48, 211, 104, 99, 129, 196, 173, 164, 109, 163, 177, 197, 91, 31, 150, 124, 3, 189, 108, 176, 174, 110, 53, 80, 221, 27, 243, 37, 34, 44, 146, 71, 123, 169, 32, 39, 70, 153, 45, 61, 86, 76, 89, 199, 65, 20, 240, 227, 132, 118, 117, 135, 228, 195, 179, 100, 83, 249, 2, 168, 151, 72, 56, 23, 116, 134, 133, 119, 24, 11, 231, 186, 52, 162, 175, 165, 190, 206, 98, 181, 212, 219, 82, 128, 180, 105, 207, 217, 214, 8, 224, 30, 171, 198, 141, 77, 75, 143, 62, 248, 127, 101, 220, 160, 54, 74, 88, 142, 87, 78, 55, 122, 152, 147, 40, 203, 236, 19, 139, 200, 247, 85, 144, 46, 17, 238, 22, 121, 73, 79, 161, 111, 187, 5, 210, 183, 16, 60, 145, 154, 35, 245, 202, 69, 148, 33, 156, 244, 43, 155, 38, 149, 170, 92, 225, 242, 158, 222, 10, 115, 120, 57, 239, 138, 66, 237, 59, 47, 184, 233, 193, 230, 114, 25, 223, 94, 215, 209, 50, 188, 167, 125, 250];

/// s^(-1) mod 251; 0 and out-of-range ↦ 0
pub fn invmod(s: u8, p: u16) -> u8 {
    let _ = p;
    if (s as u16) < P1 {
        INV251[s as usize]
    } else {
        0
    }
}

pub struct G251;

impl voprf::Group for G251 {
    type Elem = E251;
    type ElemLen = U1;
    type Scalar = S251;
    type ScalarLen = U1;

    fn hash_to_curve<H>(input: &[&[u8]], dst: &[&[u8]]) -> voprf::Result<Self::Elem, voprf::InternalError>
    where
        H: BlockSizeUser + Default + FixedOutput + HashMarker,
        H::OutputSize: IsLess<U256> + IsLessOrEqual<H::BlockSize>,
    {
        Ok(E251(1 + model_hash_to_byte::<H>(0xc1, input, dst) % 250))
    }

    fn hash_to_scalar<H>(input: &[&[u8]], dst: &[&[u8]]) -> voprf::Result<Self::Scalar, voprf::InternalError>
    where
        H: BlockSizeUser + Default + FixedOutput + HashMarker,
        H::OutputSize: IsLess<U256> + IsLessOrEqual<H::BlockSize>,
    {
        Ok(S251(1 + model_hash_to_byte::<H>(0xc2, input, dst) % 250))
    }

    fn base_elem() -> Self::Elem {
        E251(1)
    }
    fn identity_elem() -> Self::Elem {
        E251(0)
    }
    fn serialize_elem(elem: Self::Elem) -> GenericArray<u8, U1> {
        GenericArray::from([elem.0])
    }
    fn deserialize_elem(bits: &[u8]) -> voprf::Result<Self::Elem> {
        if bits.len() == 1 && bits[0] >= 1 && bits[0] <= 250 {
            Ok(E251(bits[0]))
        } else {
            Err(voprf::Error::Deserialization)
        }
    }
    /// one tape byte per attempt, rejected until it is a valid non-zero scalar — the same rule as
    /// the `cfg(test)` branch of opaque-ke's `blind()`, so both builds consume the tape alike
    fn random_scalar<R: RngCore + CryptoRng>(rng: &mut R) -> Self::Scalar {
        loop {
            let mut b = [0u8; 1];
            rng.fill_bytes(&mut b);
            if b[0] >= 1 && b[0] <= 250 {
                break S251(b[0]);
            }
        }
    }
    fn invert_scalar(s: Self::Scalar) -> Self::Scalar {
        S251(invmod(s.0, P1))
    }
    fn is_zero_scalar(s: Self::Scalar) -> Choice {
        Choice::from((s.0 == 0) as u8)
    }
    fn serialize_scalar(s: Self::Scalar) -> GenericArray<u8, U1> {
        GenericArray::from([s.0])
    }
    fn deserialize_scalar(bits: &[u8]) -> voprf::Result<Self::Scalar> {
        if bits.len() == 1 && bits[0] >= 1 && bits[0] <= 250 {
            Ok(S251(bits[0]))
        } else {
            Err(voprf::Error::Deserialization)
        }
    }
}

pub struct MOprf;
impl voprf::CipherSuite for MOprf {
    const ID: &'static str = "M251-MH";
    type Group = G251;
    type Hash = MHash;
}

// ---------------------------------------------------------------------------------------------
// key-exchange group Z_241
// ---------------------------------------------------------------------------------------------

pub const P2: u16 = 241;
pub const GEN2: u8 = 7;
pub const PK_TAG: u8 = 0x5a;

#[derive(Clone, Copy, Debug, PartialEq, Eq, PartialOrd, Ord, Hash)]
pub struct Pk241(pub u8);
#[derive(Clone, Copy, Debug, PartialEq, Eq, PartialOrd, Ord, Hash)]
pub struct Sk241(pub u8);
impl Zeroize for Pk241 {
    fn zeroize(&mut self) {
        self.0 = 0
    }
}
impl Zeroize for Sk241 {
    fn zeroize(&mut self) {
        self.0 = 0
    }
}

pub struct G241;

impl crate::key_exchange::group::KeGroup for G241 {
    type Pk = Pk241;
    type PkLen = U2;
    type Sk = Sk241;
    type SkLen = U1;

    fn serialize_pk(pk: Self::Pk) -> GenericArray<u8, U2> {
        GenericArray::from([PK_TAG, pk.0])
    }
    fn deserialize_pk(bytes: &[u8]) -> Result<Self::Pk, crate::errors::InternalError> {
        if bytes.len() == 2 && bytes[0] == PK_TAG && bytes[1] >= 1 && bytes[1] <= 240 {
            Ok(Pk241(bytes[1]))
        } else {
            Err(crate::errors::InternalError::PointError)
        }
    }
    fn random_sk<R: RngCore + CryptoRng>(rng: &mut R) -> Self::Sk {
        loop {
            let mut b = [0u8; 1];
            rng.fill_bytes(&mut b);
            if b[0] >= 1 && b[0] <= 240 {
                break Sk241(b[0]);
            }
        }
    }
    fn hash_to_scalar<H>(input: &[&[u8]], dst: &[&[u8]]) -> Result<Self::Sk, crate::errors::InternalError>
    where
        H: BlockSizeUser + Default + FixedOutput + HashMarker,
        H::OutputSize: IsLess<U256> + IsLessOrEqual<H::BlockSize>,
    {
        Ok(Sk241(1 + model_hash_to_byte::<H>(0xc3, input, dst) % 240))
    }
    fn is_zero_scalar(s: Self::Sk) -> Choice {
        Choice::from((s.0 == 0) as u8)
    }
    fn public_key(sk: Self::Sk) -> Self::Pk {
        Pk241(mulmod(GEN2, sk.0, P2))
    }
    fn diffie_hellman(pk: Self::Pk, sk: Self::Sk) -> GenericArray<u8, U2> {
        Self::serialize_pk(Pk241(mulmod(pk.0, sk.0, P2)))
    }
    fn serialize_sk(sk: Self::Sk) -> GenericArray<u8, U1> {
        GenericArray::from([sk.0])
    }
    fn deserialize_sk(bytes: &[u8]) -> Result<Self::Sk, crate::errors::InternalError> {
        if bytes.len() == 1 && bytes[0] >= 1 && bytes[0] <= 240 {
            Ok(Sk241(bytes[0]))
        } else {
            Err(crate::errors::InternalError::PointError)
        }
    }
}

// ---------------------------------------------------------------------------------------------
// tape RNG
// ---------------------------------------------------------------------------------------------

pub const TAPE_CAP: usize = 112;

pub struct Tape {
    pub buf: [u8; TAPE_CAP],
    pub pos: usize,
    pub overrun: bool,
    /// number of `fill_bytes` calls (C17: every draw is accounted for)
    pub draws: usize,
}

impl Tape {
    pub fn symbolic() -> Self {
        Self {
            buf: vk::any_bytes::<TAPE_CAP>(),
            pos: 0,
            overrun: false,
            draws: 0,
        }
    }
    pub fn from(buf: [u8; TAPE_CAP]) -> Self {
        Self {
            buf,
            pos: 0,
            overrun: false,
            draws: 0,
        }
    }
}

impl RngCore for Tape {
    fn next_u32(&mut self) -> u32 {
        let mut b = [0u8; 4];
        self.fill_bytes(&mut b);
        u32::from_le_bytes(b)
    }
    fn next_u64(&mut self) -> u64 {
        let mut b = [0u8; 8];
        self.fill_bytes(&mut b);
        u64::from_le_bytes(b)
    }
    fn fill_bytes(&mut self, dest: &mut [u8]) {
        self.draws += 1;
        let mut i = 0;
        while i < dest.len() {
            if self.pos < TAPE_CAP {
                dest[i] = self.buf[self.pos];
                self.pos += 1;
            } else {
                dest[i] = 1;
                self.overrun = true;
            }
            i += 1;
        }
    }
    fn try_fill_bytes(&mut self, dest: &mut [u8]) -> Result<(), rand::Error> {
        self.fill_bytes(dest);
        Ok(())
    }
}
impl CryptoRng for Tape {}

// ---------------------------------------------------------------------------------------------
// recording key-stretching function
// ---------------------------------------------------------------------------------------------

pub static mut KSF_CALLS: usize = 0;
pub static mut KSF_LAST_TAG: u8 = 0;
pub static mut KSF_LAST_IN: [u8; NH] = [0; NH];
pub static mut KSF_LAST_LEN: usize = 0;
/// what the next call returns (set by the harness; symbolic)
pub static mut KSF_OUT: [u8; NH] = [0; NH];
pub static mut KSF_FAIL: bool = false;

pub fn ksf_reset(out: [u8; NH], fail: bool) {
    unsafe {
        KSF_CALLS = 0;
        KSF_LAST_TAG = 0;
        KSF_LAST_IN = [0; NH];
        KSF_LAST_LEN = 0;
        KSF_OUT = out;
        KSF_FAIL = fail;
    }
}

/// the instance is identified by `tag`; `MKsf::default()` has tag 0
pub struct MKsf {
    pub tag: u8,
}
impl Default for MKsf {
    fn default() -> Self {
        Self { tag: 0 }
    }
}
impl crate::ksf::Ksf for MKsf {
    fn hash<L: ArrayLength<u8>>(
        &self,
        input: GenericArray<u8, L>,
    ) -> Result<GenericArray<u8, L>, crate::errors::InternalError> {
        unsafe {
            KSF_CALLS += 1;
            KSF_LAST_TAG = self.tag;
            KSF_LAST_LEN = input.len();
            let mut i = 0;
            while i < NH && i < input.len() {
                KSF_LAST_IN[i] = input[i];
                i += 1;
            }
            if KSF_FAIL {
                return Err(crate::errors::InternalError::KsfError);
            }
            let mut out = GenericArray::<u8, L>::default();
            let mut i = 0;
            while i < NH && i < out.len() {
                // the output depends on the instance: different parameterisations stretch differently
                out[i] = KSF_OUT[i] ^ self.tag;
                i += 1;
            }
            Ok(out)
        }
    }
}

// ---------------------------------------------------------------------------------------------
// externally held server key
// ---------------------------------------------------------------------------------------------

pub static mut XK_CALLS: usize = 0;
pub static mut XK_PUBLIC_CALLS: usize = 0;
pub static mut XK_DH_CALLS: usize = 0;
pub static mut XK_SER_CALLS: usize = 0;
/// the n-th trait call (1-based, counting `public_key` and `diffie_hellman`) fails; 0 = never
pub static mut XK_FAIL_AT: usize = 0;
pub static mut XK_FAIL_CODE: u8 = 0;

pub fn xk_reset(fail_at: usize, code: u8) {
    unsafe {
        XK_CALLS = 0;
        XK_PUBLIC_CALLS = 0;
        XK_DH_CALLS = 0;
        XK_SER_CALLS = 0;
        XK_FAIL_AT = fail_at;
        XK_FAIL_CODE = code;
    }
}

#[derive(Clone, Copy, Debug, PartialEq, Eq)]
pub struct XkError(pub u8);

/// A handle to a key held elsewhere. Two bytes on the wire (`0xe7 ‖ sk`), so that its length differs
/// from the in-memory key's.
#[derive(Clone)]
pub struct MSecretKey(pub u8);

impl crate::keypair::SecretKey<G241> for MSecretKey {
    type Error = XkError;
    type Len = U2;

    fn diffie_hellman(
        &self,
        pk: crate::keypair::PublicKey<G241>,
    ) -> Result<GenericArray<u8, U2>, crate::errors::InternalError<XkError>> {
        unsafe {
            XK_CALLS += 1;
            XK_DH_CALLS += 1;
            if XK_FAIL_AT != 0 && XK_CALLS == XK_FAIL_AT {
                return Err(crate::errors::InternalError::Custom(XkError(XK_FAIL_CODE)));
            }
        }
        let pkb = pk.serialize();
        Ok(GenericArray::from([PK_TAG, mulmod(pkb[1], self.0, P2)]))
    }
    fn public_key(&self) -> Result<crate::keypair::PublicKey<G241>, crate::errors::InternalError<XkError>> {
        unsafe {
            XK_CALLS += 1;
            XK_PUBLIC_CALLS += 1;
            if XK_FAIL_AT != 0 && XK_CALLS == XK_FAIL_AT {
                return Err(crate::errors::InternalError::Custom(XkError(XK_FAIL_CODE)));
            }
        }
        crate::keypair::PublicKey::<G241>::deserialize(&[PK_TAG, mulmod(GEN2, self.0, P2)])
            .map_err(crate::errors::InternalError::into_custom)
    }
    fn serialize(&self) -> GenericArray<u8, U2> {
        unsafe {
            XK_SER_CALLS += 1;
        }
        GenericArray::from([0xe7, self.0])
    }
    fn deserialize(input: &[u8]) -> Result<Self, crate::errors::InternalError<XkError>> {
        if input.len() == 2 && input[0] == 0xe7 && input[1] >= 1 && input[1] <= 240 {
            Ok(MSecretKey(input[1]))
        } else {
            Err(crate::errors::InternalError::Custom(XkError(0xee)))
        }
    }
}

// ---------------------------------------------------------------------------------------------
// the suite
// ---------------------------------------------------------------------------------------------

pub struct M;
impl crate::CipherSuite for M {
    type OprfCs = MOprf;
    type KeGroup = G241;
    type KeyExchange = crate::key_exchange::tripledh::TripleDh;
    type Ksf = MKsf;
}

// sizes of the suite (bytes)
pub const NOE: usize = 1; // OPRF element
pub const NOK: usize = 1; // OPRF scalar
pub const NPK: usize = 2; // KE public key
pub const NSK: usize = 1; // KE secret key
pub const NN: usize = 32; // nonce
