/* linked into the in-crate harnesses (default mode) by bin/kdrive.py (Kani: -Z c-ffi) */
#include <stdint.h>
uint64_t __CPROVER_uninterpreted_mix(uint64_t s, uint64_t a, uint64_t b);
uint64_t uf_mix(uint64_t s, uint64_t a, uint64_t b) { return __CPROVER_uninterpreted_mix(s, a, b); }
