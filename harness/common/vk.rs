//! `vk` — the one facade every harness is written against.
//!
//! * under Kani (`cfg(kani)`) it maps to `kani::any / assume / cover / assert`;
//! * natively (`--cfg opaque_ke_verif`) it is the *replay shim*: `any_*` pops the
//!   next recorded value (the byte vectors Kani's concrete playback prints, in
//!   the order the `any()` calls were executed), `check` records a failed
//!   assertion, `assume(false)` records that the recorded values do not satisfy
//!   the harness' preconditions (replay does not reproduce).
//!
//! Harness bodies use only the primitives below, so that the order of `any()`
//! calls is identical in both worlds.
#![allow(dead_code, unsafe_code, missing_docs, static_mut_refs)]

#[cfg(kani)]
mod imp {
    #[inline(always)]
    pub fn any_u8() -> u8 {
        kani::any()
    }
    #[inline(always)]
    pub fn any_u64() -> u64 {
        kani::any()
    }
    #[inline(always)]
    pub fn any_usize() -> usize {
        kani::any()
    }
    #[inline(always)]
    pub fn any_bool() -> bool {
        // a bool is drawn as a byte so that the replay shim needs no validity rule
        let b: u8 = kani::any();
        kani::assume(b <= 1);
        b == 1
    }
    #[inline(always)]
    pub fn assume(c: bool) {
        kani::assume(c)
    }
}

#[cfg(not(kani))]
mod imp {
    extern crate std;
    use std::cell::RefCell;
    use std::string::String;
    use std::vec::Vec;

    pub struct Replay {
        pub vals: Vec<Vec<u8>>,
        pub pos: usize,
        pub failed: Vec<String>,
        pub assume_violated: bool,
        pub underrun: bool,
        pub covered: Vec<String>,
    }
    std::thread_local! {
        pub static R: RefCell<Replay> = RefCell::new(Replay{vals:Vec::new(),pos:0,failed:Vec::new(),assume_violated:false,underrun:false,covered:Vec::new()});
    }
    fn next(n: usize) -> u64 {
        R.with(|r| {
            let mut r = r.borrow_mut();
            if r.pos >= r.vals.len() {
                r.underrun = true;
                return 0;
            }
            let v = r.vals[r.pos].clone();
            r.pos += 1;
            let mut out = 0u64;
            for (i, b) in v.iter().take(n).enumerate() {
                out |= (*b as u64) << (8 * i);
            }
            out
        })
    }
    pub fn any_u8() -> u8 {
        next(1) as u8
    }
    pub fn any_u64() -> u64 {
        next(8)
    }
    pub fn any_usize() -> usize {
        next(8) as usize
    }
    pub fn any_bool() -> bool {
        let b = next(1) as u8;
        assume(b <= 1);
        b == 1
    }
    pub fn assume(c: bool) {
        if !c {
            R.with(|r| r.borrow_mut().assume_violated = true);
            // unwind out of the harness: nothing after a violated assumption is meaningful
            std::panic::panic_any(AssumeViolated);
        }
    }
    pub struct AssumeViolated;
    pub fn check_fn(c: bool, msg: &'static str) {
        if !c {
            R.with(|r| r.borrow_mut().failed.push(String::from(msg)));
        }
    }
    pub fn cover_fn(c: bool, msg: &'static str) {
        if c {
            R.with(|r| r.borrow_mut().covered.push(String::from(msg)));
        }
    }
}

pub use imp::*;

#[inline(always)]
pub fn any_bytes<const N: usize>() -> [u8; N] {
    let mut a = [0u8; N];
    let mut i = 0;
    while i < N {
        a[i] = any_u8();
        i += 1;
    }
    a
}

/// `dst[..src.len()] = src` by a plain loop (harness code does not use `copy_from_slice`, so that the loop bound of its
/// stub can stay at the sizes the code under test needs)
#[inline(always)]
pub fn put(dst: &mut [u8], src: &[u8]) {
    let mut i = 0;
    while i < src.len() {
        dst[i] = src[i];
        i += 1;
    }
}

/// `a == b` for equally long slices without `memcmp` (whose loop would need its own unwind bound)
#[inline(always)]
pub fn eq_bytes(a: &[u8], b: &[u8]) -> bool {
    if a.len() != b.len() {
        return false;
    }
    let mut acc = 0u8;
    let mut i = 0;
    while i < a.len() {
        acc |= a[i] ^ b[i];
        i += 1;
    }
    acc == 0
}

/// Element-wise (typed) replacement for `<[T]>::copy_from_slice` (stubbed in every harness).
/// Reason (measured, DESIGN.md "engine defect"): CBMC 6.11's memcpy (`__CPROVER_array_replace`) loses bytes when a
/// copy ends at the end of a `generic_array::GenericArray<u8, U42>` (a tree of nested structs; 40+2, 39+3 and 34+8
/// failed) — byte_update across the end of nested structs is lowered wrongly. Single-element assignments are
/// lowered correctly; `h_lemmas::engine_selftest_ga_copy` checks the patterns the code under test produces.
pub fn elementwise_copy<T: Copy>(this: &mut [T], src: &[T]) {
    if this.len() != src.len() {
        panic!("source slice length does not match destination slice length");
    }
    let mut i = 0;
    while i < src.len() {
        this[i] = src[i];
        i += 1;
    }
}

/// Element-wise replacement for `generic_array::GenericArray::clone_from_slice` (stubbed in every harness): the
/// original goes through `from_exact_iter(list.iter().cloned())` and an `ArrayBuilder`, about 2000 symbolic-execution
/// steps per byte; this loop does the same thing (same panic on a length mismatch) in a few steps per byte.
/// `h_lemmas::lemma_stub_clone_from_slice` compares it with the original on the sizes used.
pub fn ga_clone_from_slice<T: Clone, N: generic_array::ArrayLength<T>>(list: &[T]) -> generic_array::GenericArray<T, N> {
    use generic_array::typenum::Unsigned;
    if list.len() != N::USIZE {
        panic!("Slice must be the same length as the array");
    }
    let mut out = core::mem::MaybeUninit::<generic_array::GenericArray<T, N>>::uninit();
    let p = out.as_mut_ptr() as *mut T;
    let mut i = 0;
    while i < list.len() {
        unsafe {
            p.add(i).write(list[i].clone());
        }
        i += 1;
    }
    unsafe { out.assume_init() }
}

/// no-op replacement for `zeroize::optimization_barrier` (inline asm, unsupported by Kani)
pub fn noop_barrier<T: ?Sized>(_: &T) {}

/// identity replacement for `subtle::black_box` (a `read_volatile` optimisation barrier, which CBMC models as a
/// nondeterministic read: every constant-time select downstream would become symbolic). Used only by the harnesses that
/// push *concrete* values through field arithmetic.
pub fn identity_bb<T: Copy>(input: T) -> T {
    input
}
