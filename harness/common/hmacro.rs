// `harnesses!{ fn name [unwind = N] { .. } .. }` — shared by the in-crate harness modules (hashed with harness/common)
/// Declares harnesses and the table used by the native replay.
macro_rules! harnesses {
    ($( $(#[$m:meta])* fn $name:ident [unwind = $u:literal] $body:block )*) => {
        $(
            $(#[$m])*
            #[cfg_attr(kani, kani::proof)]
            #[cfg_attr(kani, kani::unwind($u))]
            #[cfg_attr(kani, kani::stub(zeroize::optimization_barrier, crate::verif_kani::vk::noop_barrier))]
            #[cfg_attr(kani, kani::stub(<[u8]>::copy_from_slice, crate::verif_kani::vk::elementwise_copy))]
            #[cfg_attr(all(kani, not(verif_no_ga_stub)), kani::stub(generic_array::GenericArray::clone_from_slice, crate::verif_kani::vk::ga_clone_from_slice))]
            pub fn $name() $body
        )*
        pub const TABLE: &[(&str, fn())] = &[ $( (stringify!($name), $name as fn()) ),* ];
    };
}
