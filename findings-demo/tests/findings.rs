use generic_array::typenum::U33;
use generic_array::GenericArray;
use opaque_ke::errors::InternalError;
use opaque_ke::key_exchange::group::KeGroup;
use opaque_ke::key_exchange::tripledh::TripleDh;
use opaque_ke::keypair::{KeyPair, PrivateKey, PublicKey, SecretKey};
use opaque_ke::ksf::Identity;
use opaque_ke::*;
use rand::rngs::OsRng;

struct R;
impl CipherSuite for R {
    type OprfCs = Ristretto255;
    type KeGroup = Ristretto255;
    type KeyExchange = TripleDh;
    type Ksf = Identity;
}
struct P;
impl CipherSuite for P {
    type OprfCs = p256::NistP256;
    type KeGroup = p256::NistP256;
    type KeyExchange = TripleDh;
    type Ksf = Identity;
}
struct X;
impl CipherSuite for X {
    type OprfCs = Ristretto255;
    type KeGroup = Curve25519;
    type KeyExchange = TripleDh;
    type Ksf = Identity;
}

/// returns true iff the defect is present
fn f_reg_request_overlong() -> bool {
    let s = ClientRegistration::<R>::start(&mut OsRng, b"pw").unwrap();
    let mut bytes = s.message.serialize().to_vec();
    bytes.extend_from_slice(b"trailing garbage");
    match RegistrationRequest::<R>::deserialize(&bytes) {
        Ok(m) => m.serialize().as_slice() != bytes.as_slice(), // decodes, and does not re-encode to the input
        Err(_) => false,
    }
}

/// an externally held key whose handle is 33 bytes (not SkLen = 32)
#[derive(Clone)]
struct Handle(PrivateKey<Ristretto255>);
impl SecretKey<Ristretto255> for Handle {
    type Error = std::convert::Infallible;
    type Len = U33;
    fn diffie_hellman(&self, pk: PublicKey<Ristretto255>) -> Result<GenericArray<u8, <Ristretto255 as KeGroup>::PkLen>, InternalError<Self::Error>> {
        self.0.diffie_hellman(pk)
    }
    fn public_key(&self) -> Result<PublicKey<Ristretto255>, InternalError<Self::Error>> {
        self.0.public_key()
    }
    fn serialize(&self) -> GenericArray<u8, U33> {
        let mut out = GenericArray::<u8, U33>::default();
        out[0] = 0x01; // key-store slot
        out[1..].copy_from_slice(&self.0.serialize());
        out
    }
    fn deserialize(input: &[u8]) -> Result<Self, InternalError<Self::Error>> {
        if input.len() != 33 || input[0] != 0x01 {
            return Err(InternalError::InvalidByteSequence);
        }
        PrivateKey::deserialize(&input[1..]).map(Self)
    }
}
fn f_setup_external_key_reload() -> bool {
    let sk = Handle(KeyPair::<Ristretto255>::from_private_key_slice(&[7u8; 32].map(|x| x & 0x0f)).unwrap().private().clone());
    let kp = KeyPair::<Ristretto255, Handle>::from_private_key(sk).unwrap();
    let setup = ServerSetup::<R, Handle>::new_with_key(&mut OsRng, kp);
    let bytes = setup.serialize();
    // saving and reloading the setup must work; the defect: deserialize slices the key with the group's SkLen
    ServerSetup::<R, Handle>::deserialize(&bytes).is_err()
}

fn f_p256_pk_compact_tag() -> bool {
    // a valid registration response whose server public key is re-tagged 0x05 (SEC1 "compact")
    let setup = ServerSetup::<P>::new(&mut OsRng);
    let s = ClientRegistration::<P>::start(&mut OsRng, b"pw").unwrap();
    let resp = ServerRegistration::<P>::start(&setup, s.message, b"id").unwrap().message;
    let good = resp.serialize();
    for _ in 0..1 {
        let mut alt = good.to_vec();
        let off = 33; // evaluation element (33) | server_s_pk (33)
        if alt[off] != 0x02 {
            continue;
        }
        alt[off] = 0x05;
        if let Ok(m) = RegistrationResponse::<P>::deserialize(&alt) {
            return m.serialize().as_slice() == good.as_slice() && alt != good.to_vec();
        }
    }
    // the y-parity of a random key is even with probability 1/2: try a few setups
    for _ in 0..64 {
        let setup = ServerSetup::<P>::new(&mut OsRng);
        let s = ClientRegistration::<P>::start(&mut OsRng, b"pw").unwrap();
        let good = ServerRegistration::<P>::start(&setup, s.message, b"id").unwrap().message.serialize();
        if good[33] != 0x02 {
            continue;
        }
        let mut alt = good.to_vec();
        alt[33] = 0x05;
        return match RegistrationResponse::<P>::deserialize(&alt) {
            Ok(m) => m.serialize().as_slice() == good.as_slice(),
            Err(_) => false,
        };
    }
    false
}

fn f_x25519_small_order_pk() -> bool {
    // u = 1 has order 4; X25519 with any clamped scalar gives the all-zero shared secret
    let mut u = [0u8; 32];
    u[0] = 1;
    match PublicKey::<Curve25519>::deserialize(&u) {
        Ok(pk) => {
            let kp = KeyPair::<Curve25519>::from_private_key_slice(&{
                let mut k = [0x42u8; 32];
                k[0] &= 248;
                k[31] &= 127;
                k[31] |= 64;
                k
            })
            .unwrap();
            kp.private().diffie_hellman(pk).unwrap().iter().all(|b| *b == 0)
        }
        Err(_) => false,
    }
}

fn f_x25519_noncanonical_pk_alias() -> bool {
    // u = 9 (base point) and u = 9 with bit 255 set: different encodings, same key
    let mut a = [0u8; 32];
    a[0] = 9;
    let mut b = a;
    b[31] |= 0x80;
    match (PublicKey::<Curve25519>::deserialize(&a), PublicKey::<Curve25519>::deserialize(&b)) {
        (Ok(x), Ok(y)) => x == y && x.serialize() != y.serialize(),
        _ => false,
    }
}

/// NIST private key of a short length (24..31 bytes for P-256) decodes (zero-padded) and re-encodes to 32 bytes
fn f_p256_sk_short_slice() -> bool {
    let short = [1u8; 24];
    match PrivateKey::<p256::NistP256>::deserialize(&short) {
        Ok(k) => k.serialize().as_slice() != &short[..],
        Err(_) => false,
    }
}

/// OPRF element (voprf's NIST element decoder) with the SEC1 compact tag 0x05 in a RegistrationRequest
fn f_p256_oprf_element_compact_tag() -> bool {
    let mut hits = 0;
    for _ in 0..16 {
        let s = ClientRegistration::<P>::start(&mut OsRng, b"pw").unwrap();
        let mut bytes = s.message.serialize().to_vec();
        bytes[0] = 0x05;
        if let Ok(m) = RegistrationRequest::<P>::deserialize(&bytes) {
            if m.serialize().as_slice() != bytes.as_slice() {
                hits += 1;
            }
        }
    }
    println!("compact-tag OPRF elements accepted: {}/16", hits);
    hits > 0
}

macro_rules! finding {
    ($name:ident) => {
        #[test]
        fn $name() {
            let present = super::$name();
            println!("FINDING {} present={}", stringify!($name), present);
            assert!(present, "defect not present (fixed)");
        }
    };
}
mod present {
    finding!(f_reg_request_overlong);
    finding!(f_setup_external_key_reload);
    finding!(f_p256_pk_compact_tag);
    finding!(f_x25519_small_order_pk);
    finding!(f_x25519_noncanonical_pk_alias);
    finding!(f_p256_sk_short_slice);
    finding!(f_p256_oprf_element_compact_tag);
}
