//! verif-replay <harness-name> <file.json>   (file: {"values": [[u8,...],...], ...})
//! Prints one JSON line: {"found":..,"failed":[..],"assume_violated":..,"underrun":..,"leftover":..,"panicked":..,"covered":[..]}
//! Exit status: 0 = the harness ran and at least one check failed / it panicked (the counterexample
//! reproduces); 3 = ran clean (does not reproduce); 4 = values do not satisfy the harness' assumptions;
//! 5 = unknown harness / bad input.
use std::fs;

fn parse_values(s: &str) -> Option<Vec<Vec<u8>>> {
    // minimal JSON extraction of the "values" array of arrays of small integers
    let i = s.find("\"values\"")?;
    let rest = &s[i..];
    let start = rest.find('[')?;
    let mut depth = 0usize;
    let mut cur: Vec<u8> = Vec::new();
    let mut num: Option<u32> = None;
    let mut out = Vec::new();
    for ch in rest[start..].chars() {
        match ch {
            '[' => {
                depth += 1;
                if depth == 2 {
                    cur = Vec::new();
                }
            }
            ']' => {
                if let Some(n) = num.take() {
                    cur.push(n as u8);
                }
                if depth == 2 {
                    out.push(cur.clone());
                }
                depth -= 1;
                if depth == 0 {
                    return Some(out);
                }
            }
            '0'..='9' => num = Some(num.unwrap_or(0) * 10 + ch.to_digit(10).unwrap()),
            _ => {
                if let Some(n) = num.take() {
                    cur.push(n as u8);
                }
            }
        }
    }
    None
}

fn esc(s: &str) -> String {
    s.replace('\\', "\\\\").replace('"', "\\\"").replace('\n', " ")
}

fn main() {
    let args: Vec<String> = std::env::args().collect();
    if args.len() < 3 {
        eprintln!("usage: verif-replay <harness> <file.json>");
        std::process::exit(5);
    }
    let Ok(text) = fs::read_to_string(&args[2]) else { std::process::exit(5) };
    let Some(vals) = parse_values(&text) else { std::process::exit(5) };
    std::panic::set_hook(Box::new(|_| {}));
    if args.len() > 3 && args[3] == "ext" {
        let Some((failed, assume_violated, underrun, leftover, panicked, covered)) = kani_ext::run_replay(&args[1], vals) else {
            println!("{{\"found\":false}}");
            std::process::exit(5)
        };
        let f: Vec<String> = failed.iter().map(|s| format!("\"{}\"", esc(s))).collect();
        let c: Vec<String> = covered.iter().map(|s| format!("\"{}\"", esc(s))).collect();
        println!(
            "{{\"found\":true,\"failed\":[{}],\"assume_violated\":{},\"underrun\":{},\"leftover\":{},\"panicked\":{},\"covered\":[{}]}}",
            f.join(","), assume_violated, underrun, leftover,
            match &panicked { Some(p) => format!("\"{}\"", esc(p)), None => "null".to_string() }, c.join(",")
        );
        if assume_violated { std::process::exit(4); }
        if !failed.is_empty() || panicked.is_some() { std::process::exit(0); }
        std::process::exit(3);
    }
    let o = opaque_ke::verif_kani::replay::run(&args[1], vals);
    let failed: Vec<String> = o.failed.iter().map(|s| format!("\"{}\"", esc(s))).collect();
    let covered: Vec<String> = o.covered.iter().map(|s| format!("\"{}\"", esc(s))).collect();
    println!(
        "{{\"found\":{},\"failed\":[{}],\"assume_violated\":{},\"underrun\":{},\"leftover\":{},\"panicked\":{},\"covered\":[{}]}}",
        o.found,
        failed.join(","),
        o.assume_violated,
        o.underrun,
        o.leftover,
        match &o.panicked { Some(p) => format!("\"{}\"", esc(p)), None => "null".to_string() },
        covered.join(",")
    );
    if !o.found {
        std::process::exit(5);
    }
    if o.assume_violated {
        std::process::exit(4);
    }
    if !o.failed.is_empty() || o.panicked.is_some() {
        std::process::exit(0);
    }
    std::process::exit(3);
}
