#!/usr/bin/env python3
"""Run the checks against the seeded breaking changes (seeded/<id>-<slug>/patch.diff), one at a time, the sanctioned way:
git -C /repo apply <patch>; run; git -C /repo checkout -- . ; results -> seeded/MATRIX.json (and meta.json 'detected_by').

For each seed: (1) the targeted harnesses expected to catch it, with triage (counterexample extraction + native replay);
(2) optionally (--quick) the property's quick check through the official interface."""
import glob, json, os, re, subprocess, sys, time
VERIF = os.path.dirname(os.path.dirname(os.path.abspath(__file__)))
EXPECT = {  # seed directory -> harnesses expected to catch it
 "C01-server-drops-empty-identity": ["w2_server_login_start_unregistered_ids_ctx"],
 "C02-password-truncation-65533": ["s6_pwd_too_long"],
 "C02-login-password-trailing-whitespace-trimmed": ["s3_client_login_start_pw2", "w3e_login_finish_early"],
 "C03-client-mac-truncated-verify": ["c03_server_finish_exact"],
 "C04-server-mac-truncated-verify": ["s10p_generate_ke3_ctx0_default_ids"],
 "C05-empty-identity-as-absent": ["s12_identifiers_defaulting"],
 "C05-prefix-high-byte-cleared": ["s12_input_from_all_lengths"],
 "C06-envelope-tag-not-verified": ["s9_open_raw_exact"],
 "C06-update-iter-buffer-drops-long-piece": ["s12_mac_update_iter_long"],
 "C08-blank-state-for-unregistered": ["w2_server_login_start_unregistered"],
 "C09-server-identity-dropped-when-client-absent": ["s12_identifiers_defaulting"],
 "C09-extract-ikm-order-swapped": ["s6_pwd_key_len3"],
 "C10-ke2state-chunks-exact-ignores-remainder": ["d_server_login"],
 "C10-envelope-optional-mode-byte": ["d_reg_upload"],
 "C11-ristretto-sk-reduced-mod-order": ["g4_ristretto_sk_boundaries"],
 "C11-x25519-small-order-bytewise-filter": ["g2_x25519_pk_small_order"],
 "C12-overlong-identity-swallowed": ["s12_identifiers_defaulting"],
 "C13-setup-serialize-duplicates-static-key": ["d_setup"],
 "C14-credential-id-truncated-in-oprf-key": ["s7_oprf_key_from_seed_long_cred"],
 "C15-skip-default-ksf": ["s6_pwd_key_len3"],
 "C15-login-ignores-ksf-parameter": ["w3e_login_finish_early"],
 "C16-deterministic-envelope-nonce-one-identity": ["s9w_seal_client_only"],
 "C17-fake-keypair-is-static-keypair": ["s5_server_setup_new"],
 "C17-ke1-nonce-overlaps-key-seed": ["s3_client_login_start_pw2"],
 "C18-swallow-public-key-error": ["w2_server_login_start_external_key"],
 "C19-ristretto-sk-252-bit-assumption": ["g4_ristretto_sk_boundaries"],
 # wave 4
 "C01-login-ignores-ksf-params": ["w3e_login_finish_early"],
 "C01-serde-envelope-mode-zeroed": ["dr_server_registration", "ds_server_registration"],
 "C04-x25519-msb-mask": ["g2_x25519_pk_roundtrip"],
 "C04-ke2-mac-trailing": ["d_cred_resp"],
 "C08-serde-legacy-fake-keypair": ["ds_short_setup"],
 "C10-server-setup-short-fake-key": ["d_setup", "g5_p256_sk_lengths"],
 "C11-hoist-identity-check": ["gs_ristretto_pk_identity"],
 "C11-nist-sk-from-repr": ["g5_p256_sk_decode"],
 "C13-ke2state-serde-shadow-order": ["dr_server_login", "ds_server_login"],
 "C16-pw-line-ending": ["s2_client_reg_start_pw2", "s6_pwd_key_len3"],
 "C19-x25519-dh-skip-clamp": ["g3_x25519_derive"],
}
def sh(cmd, **kw):
    return subprocess.run(cmd, shell=True, stdout=subprocess.PIPE, stderr=subprocess.STDOUT, text=True, **kw)
only = [a for a in sys.argv[1:] if not a.startswith("--")]
do_quick = "--quick" in sys.argv
out_path = os.path.join(VERIF, "seeded", "MATRIX.json")
matrix = json.load(open(out_path)) if os.path.exists(out_path) else {}
assert sh("git -C /repo status --porcelain -- src").stdout.strip() == "", "/repo has uncommitted source changes"
for d in sorted(glob.glob(os.path.join(VERIF, "seeded", "C*-*"))):
    name = os.path.basename(d); pid = name.split("-")[0]
    if only and pid not in only and name not in only:
        continue
    patch = os.path.join(d, "patch.diff")
    r = sh("git -C /repo apply %s" % patch)
    if r.returncode != 0:
        matrix[name] = {"error": "patch does not apply: " + r.stdout[-300:]}; continue
    rec = {"property": pid, "expected": EXPECT.get(name, [])}
    try:
        t0 = time.time()
        r = sh("%s/bin/check --harness %s --triage" % (VERIF, " ".join(rec["expected"])), cwd=VERIF)
        rec["targeted_s"] = round(time.time() - t0, 1)
        rec["targeted_status"] = re.findall(r"^(\S+)\s+(SUCCESS|FAILED|OOM|TIMEOUT|ERROR|BROKEN-HARNESS)", r.stdout, re.M)
        rec["targeted_triage"] = [json.loads(x) for x in re.findall(r"triage: (\{.*\})", r.stdout)]
        for t in rec["targeted_triage"]:
            t.pop("native", None)
        rec["caught_targeted"] = any(t.get("kind") == "violation" for t in rec["targeted_triage"])
        if do_quick:
            t0 = time.time()
            r = sh("%s/bin/check %s --tier quick" % (VERIF, pid), cwd=VERIF)
            rec["quick_exit"] = r.returncode
            rec["quick_s"] = round(time.time() - t0, 1)
            rec["quick_lines"] = [l for l in r.stdout.splitlines() if l.startswith(("VIOLATION", "INCONCLUSIVE", "KNOWN-FINDING"))][:6]
    finally:
        sh("git -C /repo checkout -- .")
    matrix[name] = rec
    json.dump(matrix, open(out_path, "w"), indent=1)
    print(name, rec.get("targeted_status"), "caught" if rec.get("caught_targeted") else "NOT caught", rec.get("quick_exit"), flush=True)
    m = json.load(open(os.path.join(d, "meta.json")))
    m["detected_by"] = {"harnesses": [t.get("check") for t in rec.get("targeted_triage", []) if t.get("kind") == "violation"],
                        "targeted": rec["expected"], "caught": rec.get("caught_targeted"), "quick_exit": rec.get("quick_exit")}
    json.dump(m, open(os.path.join(d, "meta.json"), "w"), indent=1)
