#!/usr/bin/env python3
"""render seeded/MATRIX.json as the markdown table of DESIGN.md §10.7 (replaces everything after the §10.7 heading)"""
import json, os, sys
V = os.path.dirname(os.path.dirname(os.path.abspath(__file__)))
sys.path.insert(0, os.path.join(V, "harness"))
import registry as R
m = json.load(open(os.path.join(V, "seeded", "MATRIX.json")))
rows = []
caught = 0
for name in sorted(m):
    r = m[name]
    pid = r.get("property", name.split("-")[0])
    tiers = []
    for h in r.get("expected", []):
        q = h in R.PROPERTIES.get(pid, {}).get("quick", []) or ("c12_" + h) in R.PROPERTIES.get(pid, {}).get("quick", [])
        t = h in R.PROPERTIES.get(pid, {}).get("thorough", []) or ("c12_" + h) in R.PROPERTIES.get(pid, {}).get("thorough", [])
        tiers.append("%s (%s)" % (h, "quick" if q else "thorough" if t else "other property's tier"))
    st = ", ".join("%s %s" % (a, b) for a, b in r.get("targeted_status", []))
    tri = r.get("targeted_triage", [])
    if r.get("caught_targeted"):
        caught += 1
        v = [t for t in tri if t.get("kind") == "violation"][0]
        out = "VIOLATION, replayed natively (%s): \"%s\"" % ("+".join(v.get("profiles", [])), v.get("check", ""))
    else:
        out = "not reported: " + "; ".join((t.get("why") or "")[:110] for t in tri) if tri else "not reported (%s)" % st
    rows.append("| %s | %s | %s | %s | %ss |" % (name, "; ".join(tiers), st, out, r.get("targeted_s", "")))
md = "### 10.7 Detection matrix as run\n\n`bin/seedmatrix.py` on the repaired tree (HEAD of /repo), one seed at a time: `git -C /repo apply`, run the named harness(es) with\ncounterexample extraction and native replay, `git -C /repo checkout -- .`. %d of %d seeds end in a natively replayed VIOLATION.\n\n| seed | harness (tier in the seed's property) | CBMC verdict | outcome | time |\n|---|---|---|---|---|\n%s\n" % (caught, len(m), "\n".join(rows))
p = os.path.join(V, "DESIGN.md")
s = open(p).read()
i = s.index("### 10.7 Detection matrix as run")
j = s.find("\n### 10.8", i)
s = s[:i] + md + (s[j:] if j > 0 else "")
open(p, "w").write(s)
print("caught", caught, "of", len(m))
