#!/usr/bin/env python3
"""vcheck — decide one property of /verif/properties.jsonl on /repo's current working tree.

usage: vcheck.py <PROPERTY-ID> [--tier quick|thorough] [--jobs N]
       vcheck.py --replay <replay.json>
       vcheck.py --harness <name> [...]           (developer: run single harnesses, print results)

Exit status: 0 property held on everything explored (known findings printed as KNOWN-FINDING lines);
             1 a violation that replays natively and is not a known finding (VIOLATION line printed);
             2 inconclusive (harness does not compile, timeout, out of memory, vacuous cover, bound too small,
               counterexample that does not replay) — printed as INCONCLUSIVE, never as VIOLATION.
"""
import concurrent.futures as cf
import fcntl
import hashlib
import json
import os
import re
import subprocess
import sys
import time

HERE = os.path.dirname(os.path.abspath(__file__))
VERIF = os.path.dirname(HERE)
sys.path.insert(0, HERE)
sys.path.insert(0, os.path.join(VERIF, "harness"))
import kdrive  # noqa: E402
import registry  # noqa: E402

REPO = os.environ.get("VERIF_REPO", "/repo")  # developer override: a clean worktree while /repo is busy
WORK = os.environ.get("VERIF_WORK", "/var/tmp/verif-kani")
UF_C = os.path.join(VERIF, "harness", "common", "uf.c")
MEM_C = os.path.join(VERIF, "harness", "common", "memshim.c")
PROJECTS = {
    # the real crate with the in-crate harness modules; hash = CBMC uninterpreted function (uf.c)
    "incrate": dict(manifest_dir=REPO, extra=["--features", "curve25519"], c_libs=[UF_C], rustflags=None),
    # same, hash = run-time table with symbolic outputs (replayable); used to extract counterexamples
    "incrate-table": dict(manifest_dir=REPO, extra=["--features", "curve25519"], c_libs=[], rustflags="--cfg verif_uf_table"),
    "ext": dict(manifest_dir=os.path.join(VERIF, "kani-ext"), extra=[], c_libs=[], rustflags=None),
}


def log(*a):
    print(*a, flush=True)


# ------------------------------------------------------------------------------------------------
# hashing of the inputs of a run (memo key): nothing is reused across different source trees
# ------------------------------------------------------------------------------------------------

def _hash_files(roots):
    h = hashlib.sha256()
    files = []
    for r in roots:
        if os.path.isfile(r):
            files.append(r)
        elif os.path.isdir(r):
            for d, _, fs in os.walk(r):
                if "__pycache__" in d:
                    continue
                for f in fs:
                    files.append(os.path.join(d, f))
    for f in sorted(files):
        h.update(f.encode())
        h.update(b"\0")
        try:
            h.update(open(f, "rb").read())
        except OSError:
            pass
        h.update(b"\0")
    return h.hexdigest()[:24]


def tree_hash():
    """everything a goto-binary can depend on: /repo's sources and manifests, all harness sources, the driver"""
    return _hash_files([os.path.join(REPO, "src"), os.path.join(REPO, "Cargo.toml"), os.path.join(REPO, "Cargo.lock"),
                        os.path.join(VERIF, "harness", "common"), os.path.join(VERIF, "harness", "incrate"),
                        os.path.join(VERIF, "kani-ext", "src"), os.path.join(VERIF, "kani-ext", "Cargo.toml"),
                        os.path.join(HERE, "kdrive.py")])


_base = {}


def harness_hash(name):
    """what *this* harness' verdict can depend on: /repo, the shared harness files (model, facade, macros, reference — not mod.rs,
    which only lists modules) and the one file that defines the harness — so that editing another harness file does not discard its verdict"""
    spec = registry.HARNESSES[name]
    project = spec.get("project", "incrate")
    if "base" not in _base:
        _base["base"] = _hash_files([os.path.join(REPO, "src"), os.path.join(REPO, "Cargo.toml"),
                                     os.path.join(REPO, "Cargo.lock"), os.path.join(VERIF, "harness", "common"),
                                     os.path.join(VERIF, "harness", "incrate", "spec.rs"),
                                     os.path.join(VERIF, "harness", "incrate", "spec_prims.rs"),
                                     os.path.join(HERE, "kdrive.py")])
    if project == "ext":
        own = [os.path.join(VERIF, "kani-ext", "src"), os.path.join(VERIF, "kani-ext", "Cargo.toml")]
    else:
        mod = spec["path"].split("::")[0]
        fn = {"verif_kani_opaque": "child_opaque.rs", "verif_kani_envelope": "child_envelope.rs",
              "verif_kani_tripledh": "child_tripledh.rs"}.get(mod, mod + ".rs")
        own = [os.path.join(VERIF, "harness", "incrate", fn)] + \
              [os.path.join(VERIF, "harness", "incrate", x) for x in spec.get("also_depends", [])]
    return _base["base"] + _hash_files(own)


class Lock:
    def __init__(self, path):
        self.path = path

    def __enter__(self):
        os.makedirs(os.path.dirname(self.path), exist_ok=True)
        self.f = open(self.path, "w")
        fcntl.flock(self.f, fcntl.LOCK_EX)
        return self

    def __exit__(self, *a):
        fcntl.flock(self.f, fcntl.LOCK_UN)
        self.f.close()


# ------------------------------------------------------------------------------------------------
# codegen (once per project and source tree)
# ------------------------------------------------------------------------------------------------

_metas = {}


def project_metas(project, th, needed=None):
    """codegen for `project`, restricted to the harness paths in `needed` (None = all). The stamp remembers which harnesses
    were generated for this tree; a later request for others regenerates the union."""
    cfg = PROJECTS[project]
    tdir = os.path.join(WORK, project)
    os.makedirs(tdir, exist_ok=True)
    stamp = os.path.join(tdir, "stamp.json")
    want = None if needed is None else set(needed)
    cached = _metas.get(project)
    if cached and cached[0] is not None and (want is not None and all(find_meta(cached[0], w) for w in want)):
        return cached
    with Lock(os.path.join(WORK, project + ".lock")):
        st = None
        if os.path.exists(stamp):
            try:
                st = json.load(open(stamp))
            except Exception:
                st = None
        if st and st.get("tree") == th and all(os.path.exists(m["goto_file"]) for m in st["metas"].values()):
            have_all = st.get("all", False)
            if have_all or (want is not None and all(find_meta(st["metas"], w) for w in want)):
                _metas[project] = (st["metas"], st["codegen_s"], None)
                return _metas[project]
            if want is not None:
                want |= set(st.get("filter", []))
        try:
            metas, secs, out = kdrive.codegen(cfg["manifest_dir"], os.path.join(tdir, "target"), cfg["extra"],
                                              log=os.path.join(tdir, "codegen.log"), rustflags=cfg["rustflags"],
                                              harness_filter=sorted(want) if want is not None else ())
        except RuntimeError as e:
            _metas[project] = (None, 0.0, str(e))
            return _metas[project]
        if want is not None:
            metas = {k: v for k, v in metas.items() if any(k.endswith("::" + w) or k == w for w in want)}
        json.dump({"tree": th, "metas": metas, "codegen_s": secs, "all": want is None, "filter": sorted(want or [])}, open(stamp, "w"))
        _metas[project] = (metas, secs, None)
        return _metas[project]


# ------------------------------------------------------------------------------------------------
# one harness
# ------------------------------------------------------------------------------------------------

def find_meta(metas, path):
    if path in metas:
        return metas[path]
    for k, v in metas.items():
        if k.endswith("::" + path) or k == path:
            return v
    return None


def unwindset_for(work_out, patterns):
    uws = []
    for lid, fn, _f, _l in kdrive.show_loops(work_out):
        bound = None
        for pat, b in patterns:
            if re.search(pat, fn) or re.search(pat, lid):
                bound = b
        if bound is not None:
            uws.append((lid, bound))
    return uws


def focus_properties(work_out):
    """properties decided in the functional tier: the harness' own assertions and covers (files under /verif), and
    every unwinding assertion. Rust's panic checks inside the code under test are the C12 tier's (default_checks)."""
    r = subprocess.run(["cbmc", "--show-properties", "--json-ui", work_out], stdout=subprocess.PIPE,
                       stderr=subprocess.DEVNULL, text=True, env=kdrive.ENV)
    try:
        js = json.loads(r.stdout)
    except Exception:
        return None
    names = []
    for item in js:
        if isinstance(item, dict) and "properties" in item:
            for pr in item["properties"]:
                f = pr.get("sourceLocation", {}).get("file", "")
                cls = pr.get("class", "")
                n = pr["name"]
                klass = n.rsplit(".", 2)[-2] if n.count(".") >= 2 else cls
                mine = "/verif/" in f or f.startswith("src/g_")
                if klass == "unwind" or (mine and klass in ("assertion", "cover")):
                    names.append(n)
    return names


def locate_property(work_out, check):
    """name of the property with the same description and source line in another build of the same harness"""
    r = subprocess.run(["cbmc", "--show-properties", "--json-ui", work_out], stdout=subprocess.PIPE,
                       stderr=subprocess.DEVNULL, text=True, env=kdrive.ENV)
    try:
        js = json.loads(r.stdout)
    except Exception:
        return None
    cands = []
    for item in js:
        if isinstance(item, dict) and "properties" in item:
            for pr in item["properties"]:
                d = re.sub(r"^\[KANI_CHECK_ID_[^\]]*\] ?", "", pr.get("description", ""))
                sl = pr.get("sourceLocation", {})
                if d == check["description"] and sl.get("line") == check["line"] and \
                        os.path.basename(sl.get("file", "")) == os.path.basename(check["file"]):
                    cands.append((pr["name"], sl.get("function", "")))
    for n, fn in cands:
        if fn == check["function"]:
            return n
    return cands[0][0] if cands else None


class MemBudget:
    """at most `total` GB of CBMC address-space caps running at once (62 GB machine, no swap)"""

    def __init__(self, total):
        import threading
        self.total = total
        self.used = 0
        self.cv = threading.Condition()

    def acquire(self, gb):
        gb = min(gb, self.total)
        with self.cv:
            while self.used + gb > self.total:
                self.cv.wait()
            self.used += gb
        return gb

    def release(self, gb):
        with self.cv:
            self.used -= gb
            self.cv.notify_all()


NEEDED = {}  # project -> harness paths this process will need (set before the first codegen)


BUDGET = MemBudget(int(os.environ.get("VERIF_MEM_GB", "54")))


def run_harness(name, th, tier, use_memo=True):
    spec = registry.HARNESSES[name]
    project = spec.get("project", "incrate")
    metas, codegen_s, err = project_metas(project, th, NEEDED.get(project))
    res = {"harness": name, "project": project}
    if metas is None:
        res.update(status="BROKEN-HARNESS", detail=err[-3000:])
        return res
    meta = find_meta(metas, spec["path"])
    if meta is None:
        res.update(status="BROKEN-HARNESS", detail="harness %s not found in the compiled crate" % spec["path"])
        return res
    default_checks = spec.get("default_checks", False) or bool(os.environ.get("VERIF_FORCE_DEFAULT"))
    unwind = spec.get("unwind", meta["attributes"].get("unwind_value"))
    patterns = list(registry.DEFAULT_LOOPS) + list(spec.get("loops", []))
    timeout = spec.get("timeout", 900) * (2 if tier == "thorough" else 1)
    mem = spec.get("mem_gb", 10)
    key = hashlib.sha256(json.dumps([harness_hash(name), name, spec["path"], default_checks, unwind, patterns, mem >= 0,
                                     bool(spec.get("focus", False) and not os.environ.get("VERIF_NO_FOCUS"))],
                                    sort_keys=True).encode()).hexdigest()[:32]
    memo_dir = os.path.join(WORK, "memo")
    os.makedirs(memo_dir, exist_ok=True)
    memo = os.path.join(memo_dir, key + ".json")
    with Lock(os.path.join(memo_dir, key + ".lock")):
        if use_memo and os.path.exists(memo):
            try:
                r = json.load(open(memo))
                r["memo_hit"] = True
                return r
            except Exception:
                pass
        wdir = os.path.join(WORK, "run", key)
        os.makedirs(wdir, exist_ok=True)
        work_out = os.path.join(wdir, "h.out")
        try:
            kdrive.prepare(meta, work_out, PROJECTS[project]["c_libs"])
        except RuntimeError as e:
            res.update(status="BROKEN-HARNESS", detail=str(e)[-2000:])
            return res
        uws = unwindset_for(work_out, patterns)
        extra = []
        focus = spec.get("focus", False) and not os.environ.get("VERIF_NO_FOCUS")
        if focus:
            names = focus_properties(work_out)
            if names:
                for n in names:
                    extra += ["--property", n]
        got = BUDGET.acquire(mem)
        try:
            r = kdrive.run_cbmc(work_out, unwind, uws, default_checks=default_checks, timeout_s=timeout, mem_gb=mem,
                                log=os.path.join(wdir, "cbmc.log"), extra=extra)
        finally:
            BUDGET.release(got)
        res.update(status=r["status"], wall_s=r["wall_s"], stats=r["stats"], unwind=unwind,
                   unwindset=[[a, b] for a, b in uws], default_checks=default_checks,
                   n_checks=len(r["checks"]), n_success=sum(1 for c in r["checks"] if c["status"] == "SUCCESS"),
                   covers=[{"msg": c["description"], "status": c["cover"]} for c in r["covers"]],
                   failed=r["failed"][:40], work=wdir, mangled=meta["mangled_name"], codegen_s=codegen_s,
                   user_checks=[{"msg": c["description"], "status": c["status"], "line": c["line"]}
                                for c in r["checks"] if "/verif/" in c["file"] and c["class"] == "assertion"],
                   functions=None, cmd=r["cmd"])
        if r["status"] in ("ERROR", "OOM"):
            res["detail"] = r.get("tail", "")
        if r["status"] in ("SUCCESS", "FAILED"):
            # functions of /repo that were symbolically executed (from CBMC's per-function result headers)
            fns = sorted({c["function"] for c in r["checks"] if c["file"].startswith("src/")})
            res["functions"] = fns
            json.dump(res, open(memo, "w"))
            if r["status"] == "SUCCESS":
                try:
                    os.remove(work_out)
                except OSError:
                    pass
        return res


# ------------------------------------------------------------------------------------------------
# counterexample extraction and native replay
# ------------------------------------------------------------------------------------------------

def extract_values(work_out, prop, unwind, uws, default_checks, timeout=1800, mem_gb=24, first_failure=False):
    """re-run CBMC for the single failing property with --trace --json-ui; return the kani::any() values"""
    # no --slice-formula here: slicing drops the nondet assignments outside the property's cone of influence from the
    # trace, and the native replay needs *every* kani::any() value in execution order
    base = [x for x in kdrive.CBMC_BASE if x != "--slice-formula"]
    cmd = ["cbmc"] + base + (kdrive.CBMC_DEFAULT if default_checks else kdrive.CBMC_NO_DEFAULT)
    if unwind is not None:
        cmd += ["--unwind", str(unwind)]
    if uws:
        cmd += ["--unwindset", ",".join("%s:%d" % (a, b) for a, b in uws)]
    if first_failure:
        # unwinding assertions are created during symbolic execution and cannot be selected with --property
        cmd += ["--stop-on-fail", "--trace", "--json-ui", work_out]
    else:
        cmd += ["--property", prop, "--trace", "--json-ui", work_out]
    try:
        p = subprocess.run(cmd, stdout=subprocess.PIPE, stderr=subprocess.DEVNULL, text=True, env=kdrive.ENV,
                           timeout=timeout, preexec_fn=kdrive._limits(mem_gb))
        js = json.loads(p.stdout)
    except Exception as e:
        return None, "trace extraction failed: %s" % e
    vals = []
    for item in js:
        if first_failure and isinstance(item, dict) and "trace" in item and "result" not in item:
            item = {"result": [dict(item, property=prop)]}
        if isinstance(item, dict) and "result" in item:
            for pr in item["result"]:
                if pr.get("property") != prop or "trace" not in pr:
                    continue
                for st in pr["trace"]:
                    if st.get("stepType") != "assignment":
                        continue
                    fn = st.get("sourceLocation", {}).get("function", "")
                    lhs = st.get("lhs", "")
                    if fn.startswith("kani::any_raw_internal") and lhs.startswith("goto_symex$$return_value"):
                        b = st.get("value", {}).get("binary")
                        if b is None:
                            continue
                        n = len(b) // 8
                        v = int(b, 2)
                        vals.append([(v >> (8 * i)) & 0xff for i in range(n)])
                return vals, None
    return None, "no trace for %s" % prop


def build_replay(th):
    """build the native replay binary (dev and release) against /repo's current tree"""
    tdir = os.path.join(WORK, "replay-target")
    stamp = os.path.join(tdir, "stamp")
    with Lock(os.path.join(WORK, "replay.lock")):
        bins = {p: os.path.join(tdir, p, "verif-replay") for p in ("debug", "release")}
        if os.path.exists(stamp) and open(stamp).read() == th and all(os.path.exists(b) for b in bins.values()):
            return bins, None
        env = dict(kdrive.ENV, RUSTFLAGS="--cfg opaque_ke_verif -Awarnings")
        for prof in ([], ["--release"]):
            r = subprocess.run(["cargo", "build", "--offline", "--target-dir", tdir] + prof,
                               cwd=os.path.join(VERIF, "replay"), env=env, stdout=subprocess.PIPE,
                               stderr=subprocess.STDOUT, text=True)
            if r.returncode != 0:
                return None, r.stdout[-3000:]
        os.makedirs(tdir, exist_ok=True)
        open(stamp, "w").write(th)
        return bins, None


def native_replay(bins, harness_fn, replay_file, project="incrate"):
    out = {}
    for prof, b in bins.items():
        r = subprocess.run([b, harness_fn, replay_file, "ext" if project == "ext" else "incrate"], stdout=subprocess.PIPE,
                           stderr=subprocess.STDOUT, text=True)
        line = r.stdout.strip().splitlines()[-1] if r.stdout.strip() else ""
        try:
            js = json.loads(line)
        except Exception:
            js = {"raw": r.stdout[-500:]}
        js["exit"] = r.returncode
        out[prof] = js
    return out


def is_bound_failure(c):
    return c["class"] == "unwind" or "unwinding assertion" in c["description"] or "UF table large enough" in c["description"] \
        or "tape long enough" in c["description"]


def triage_failure(name, res, th, prop_id):
    """returns list of dicts {kind: violation|inconclusive|known, ...}"""
    outs = []
    spec = registry.HARNESSES[name]
    failed = res.get("failed", [])
    bound = [c for c in failed if is_bound_failure(c)]
    real = [c for c in failed if not is_bound_failure(c)]
    bound_only = bool(bound and not real)
    bound_why = "bound too small: " + "; ".join("%s %s:%s" % (c["description"], c["file"], c["line"]) for c in bound[:3])
    if bound_only:
        # A loop ran past its asserted bound. Usually the bound is simply too small for this tree (inconclusive); but the
        # solver's inputs that drive the loop that far are a concrete run like any other: if the harness' own assertions fail
        # on them natively (e.g. an over-long input that must be refused is hashed instead), that is a confirmed violation.
        real = bound[:1]
    bins, err = build_replay(th)
    if bins is None:
        return [{"kind": "inconclusive", "why": "replay binary does not build: " + err[-400:]}]
    project = spec.get("project", "incrate")
    patterns = list(registry.DEFAULT_LOOPS) + list(spec.get("loops", []))
    # The harness' inputs are read from a trace of the *same* binary that failed (uninterpreted hash); natively the
    # harness then runs on those inputs with a fixed well-mixing hash (model.rs `mix`, cfg(not(kani))).
    metas, _, err = project_metas(project, th, [spec["path"]])
    if metas is None:
        return [{"kind": "inconclusive", "why": "harness build failed: " + err[-400:]}]
    meta = find_meta(metas, spec["path"])
    if meta is None:
        return [{"kind": "inconclusive", "why": "harness missing in build"}]
    tdir = os.path.join(WORK, "run", "triage-" + hashlib.sha256((th + name).encode()).hexdigest()[:16])
    os.makedirs(tdir, exist_ok=True)
    work_out = os.path.join(tdir, "h.out")
    kdrive.prepare(meta, work_out, PROJECTS[project]["c_libs"])
    uws = unwindset_for(work_out, patterns)
    seen_msgs = set()
    for c in real[:6]:
        if c["description"] in seen_msgs:
            continue
        seen_msgs.add(c["description"])
        prop = c["property"] if bound_only else locate_property(work_out, c)
        if prop is None:
            outs.append({"kind": "inconclusive", "why": "failing check not found in table-mode build", "check": c["description"]})
            continue
        vals, e = extract_values(work_out, prop, res["unwind"], uws, res["default_checks"], first_failure=bound_only)
        if vals is None:
            outs.append({"kind": "inconclusive", "why": e, "check": c["description"]})
            continue
        rdir = os.path.join(VERIF, "replays")
        os.makedirs(rdir, exist_ok=True)
        hid = hashlib.sha256(json.dumps([name, c["description"], vals]).encode()).hexdigest()[:12]
        rfile = os.path.join(rdir, "%s-%s-%s.json" % (prop_id, name, hid))
        rec = {"property": prop_id, "harness": name, "harness_fn": spec["path"].split("::")[-1],
               "project": spec.get("project", "incrate"),
               "failed_check": c["description"], "location": "%s:%s" % (c["file"], c["line"]), "function": c["function"],
               "values": vals, "replay_cmd": "/verif/bin/check --replay %s" % rfile}
        json.dump(rec, open(rfile, "w"), indent=1)
        rp = native_replay(bins, rec["harness_fn"], rfile, rec["project"])
        rec["native"] = rp
        json.dump(rec, open(rfile, "w"), indent=1)
        reproduced = [p for p, o in rp.items() if o.get("exit") == 0]
        if bound_only and not reproduced:
            outs.append({"kind": "inconclusive", "why": bound_why, "replay": rfile})
            continue
        if reproduced:
            nf = sorted({m for p_ in reproduced for m in (rp[p_].get("failed") or [])} |
                        {"panic: " + rp[p_]["panicked"] for p_ in reproduced if rp[p_].get("panicked")})
            outs.append({"kind": "violation", "replay": rfile, "check": c["description"], "profiles": reproduced,
                         "location": rec["location"], "native_failed": nf, "native": rp})
        else:
            outs.append({"kind": "inconclusive", "why": "counterexample does not replay natively (%s)" % json.dumps(
                {p: (o.get("exit"), o.get("failed"), o.get("panicked")) for p, o in rp.items()}), "replay": rfile,
                "check": c["description"]})
    return outs


# ------------------------------------------------------------------------------------------------
# property level
# ------------------------------------------------------------------------------------------------

def load_known():
    p = os.path.join(VERIF, "known_findings.json")
    if os.path.exists(p):
        return json.load(open(p))
    return {"findings": [], "fixed": []}


def check_property(pid, tier, jobs):
    t0 = time.time()
    pspec = registry.PROPERTIES[pid]
    names = list(pspec["quick"]) + (list(pspec.get("thorough", [])) if tier == "thorough" else [])
    skipped_stretch = []
    if os.environ.get("VERIF_SKIP_STRETCH"):
        skipped_stretch = [n for n in names if registry.HARNESSES[n].get("stretch")]
        names = [n for n in names if n not in skipped_stretch]
    seed = int(os.environ.get("VERIF_SEED", "0") or 0)
    # the seed only permutes the order in which obligations are scheduled
    if seed:
        names = names[seed % len(names):] + names[:seed % len(names)]
    th = tree_hash()
    log("[vcheck] property=%s tier=%s tree=%s harnesses=%d" % (pid, tier, th, len(names)))
    for n in names:
        NEEDED.setdefault(registry.HARNESSES[n].get("project", "incrate"), []).append(registry.HARNESSES[n]["path"])
    for project in sorted({registry.HARNESSES[n].get("project", "incrate") for n in names}):
        metas, secs, err = project_metas(project, th, NEEDED[project])
        if metas is None:
            log("INCONCLUSIVE property=%s BROKEN-HARNESS project=%s: the harness crate does not compile against the "
                "current tree\n%s" % (pid, project, err[-2500:]))
            write_evidence(pid, tier, seed, [], {}, time.time() - t0, note="harness crate does not compile", violations=0)
            return 2
        log("[vcheck] codegen %s: %.1fs (%d harnesses)" % (project, secs, len(metas)))
    results = {}
    with cf.ThreadPoolExecutor(max_workers=jobs) as ex:
        futs = {ex.submit(run_harness, n, th, tier): n for n in names}
        for f in cf.as_completed(futs):
            n = futs[f]
            try:
                r = f.result()
            except Exception as e:  # pragma: no cover
                r = {"harness": n, "status": "ERROR", "detail": repr(e)}
            results[n] = r
            st = r.get("stats") or {}
            log("[vcheck]   %-44s %-9s %6.1fs steps=%s vccs=%s solver=%ss%s" % (
                n, r["status"], r.get("wall_s", 0.0), st.get("steps"), st.get("vccs"), st.get("solver_s"),
                " (memo)" if r.get("memo_hit") else ""))
    known = load_known()
    violations, inconclusive, known_hits, stretch_skipped = [], [], [], []
    for n in names:
        r = results[n]
        spec = registry.HARNESSES[n]
        if r["status"] == "SUCCESS":
            need = spec.get("covers", [])
            sat = {c["msg"] for c in r.get("covers", []) if c["status"] == "SATISFIED"}
            missing = [c for c in need if c not in sat]
            if missing:
                inconclusive.append((n, "vacuous: cover(s) not satisfied: %s" % missing))
            for kf in spec.get("expect_fail", []):
                # a harness restricted to a known finding must still fail; if it passes the finding is gone
                pass
            continue
        if r["status"] == "FAILED":
            # harnesses that encode a *listed* finding: failure is the expected KNOWN-FINDING
            kf = spec.get("known_finding")
            if kf:
                ent = [k for k in known["findings"] if k["id"] == kf and k["property"] == pid]
                allowed = set(ent[0].get("checks", [])) if ent else set()
                extra = [c for c in r["failed"] if c["description"] not in allowed]
                if ent and not extra:
                    known_hits.append((ent[0], n))
                    continue
            for o in triage_failure(n, r, th, pid):
                if o["kind"] == "violation":
                    violations.append((n, o))
                else:
                    inconclusive.append((n, o["why"]))
            continue
        if spec.get("stretch") and r["status"] in ("TIMEOUT", "OOM"):
            # stretch obligation: measured to be at the edge of this machine; not decided in this run, reported, status unaffected
            stretch_skipped.append((n, r["status"]))
            continue
        inconclusive.append((n, "%s %s" % (r["status"], (r.get("detail") or "")[-300:].replace("\n", " | "))))
    # known-finding harnesses that passed: the defect is gone; say so (no suppression needed)
    for ent, n in known_hits:
        log("KNOWN-FINDING: property=%s %s [%s; harness %s]" % (pid, ent["what"], ent["id"], n))
    # listed findings whose harness is not part of this tier (too expensive for it): still named, and marked as not re-examined
    hit_ids = {e["id"] for e, _ in known_hits}
    for ent in known["findings"]:
        if ent["property"] == pid and ent["id"] not in hit_ids and ent.get("harness") not in names:
            log("KNOWN-FINDING: property=%s %s [%s; harness %s belongs to the thorough tier and was not re-examined in this run]"
                % (pid, ent["what"], ent["id"], ent.get("harness")))
    for n, o in violations:
        log("VIOLATION property=%s replay=%s" % (pid, o["replay"]))
        log("  harness=%s check=%r at %s reproduced natively in %s: %s" % (n, o["check"], o["location"], o["profiles"],
                                                                            "; ".join(o.get("native_failed", []))[:300]))
    for n, why in inconclusive:
        log("INCONCLUSIVE property=%s harness=%s: %s" % (pid, n, why))
    for n, st in stretch_skipped:
        log("[vcheck] stretch obligation not decided in this run (%s): %s" % (st, n))
    wall = time.time() - t0
    write_evidence(pid, tier, seed, names, results, wall, violations=len(violations),
                   known=[e["id"] for e, _ in known_hits], inconclusive=[(n, w) for n, w in inconclusive] +
                   [(n, "stretch obligation not decided: " + st) for n, st in stretch_skipped])
    if violations:
        return 1
    if inconclusive:
        return 2
    log("[vcheck] property=%s tier=%s: %d obligations discharged in %.1fs" % (pid, tier, len(names), wall))
    return 0


def write_evidence(pid, tier, seed, names, results, wall, violations=0, known=(), inconclusive=(), note=None):
    pspec = registry.PROPERTIES.get(pid, {})
    obligations = discharged = 0
    distinct = 0
    samples = []
    functions = set()
    solver_s = 0.0
    steps = 0
    for n in names:
        r = results.get(n, {})
        spec = registry.HARNESSES[n]
        obligations += r.get("n_checks", 0) + len(r.get("covers", []))
        discharged += r.get("n_success", 0) + sum(1 for c in r.get("covers", []) if c["status"] == "SATISFIED")
        uc = [c for c in r.get("user_checks", []) if c["status"] == "SUCCESS"]
        distinct += len({c["msg"] for c in uc}) if r.get("status") == "SUCCESS" else 0
        st = r.get("stats") or {}
        solver_s += st.get("solver_s") or 0.0
        steps += st.get("steps") or 0
        for f in r.get("functions") or []:
            functions.add(f)
        samples.append({
            "harness": n, "path": spec["path"], "what": spec.get("what", ""), "bounds": spec.get("bounds", ""),
            "status": r.get("status"), "unwind": r.get("unwind"), "unwindset": r.get("unwindset"),
            "program_steps": st.get("steps"), "vccs": st.get("vccs"), "sat_variables": st.get("variables"),
            "sat_clauses": st.get("clauses"), "symex_s": st.get("symex_s"), "solver_s": st.get("solver_s"),
            "wall_s": r.get("wall_s"), "cbmc_checks": r.get("n_checks"), "cbmc_checks_success": r.get("n_success"),
            "assertions_proved": sorted({c["msg"] for c in uc}),
            "covers": r.get("covers"), "default_checks": r.get("default_checks"),
            "memo_hit": bool(r.get("memo_hit")),
            "lemma_only": bool(spec.get("lemma")),
        })
    ev = {
        "property_id": pid, "tier": tier, "seed": seed, "level": "model_checking",
        "coverage": {
            "evaluations": max(discharged, 0),
            "distinct_nontrivial": distinct,
            "rule": "one evaluation = one CBMC property (assertion, Rust panic check, unwinding assertion, cover) decided by the SAT "
                    "solver over all values of the harness' symbolic inputs within the stated bounds; distinct_nontrivial counts the "
                    "distinct harness-level assertions (check! in /verif/harness) proved in harnesses whose verdict is SUCCESS — "
                    "library-internal checks and covers are not counted",
            "samples": samples,
            "obligations": obligations, "discharged": discharged,
            "functions_encoded": sorted(functions),
            "program_steps_total": steps, "solver_s_total": round(solver_s, 2),
            "engine": "Kani 0.68.0 (goto-program from /repo's working tree) + CBMC 6.11.0 / CaDiCaL, driven by /verif/bin/kdrive.py",
            "known_findings_printed": list(known),
            "inconclusive": [list(x) for x in inconclusive],
            "exhaustive": False,
        },
        "assumptions": list(registry.COMMON_ASSUMPTIONS) + list(pspec.get("assumptions", [])),
        "wall_s": round(wall, 2),
        "violations": violations,
    }
    if note:
        ev["coverage"]["note"] = note
    edir = os.environ.get("VERIF_EVIDENCE_DIR", os.path.join(VERIF, "evidence"))  # developer override for dry runs
    os.makedirs(edir, exist_ok=True)
    json.dump(ev, open(os.path.join(edir, pid + ".json"), "w"), indent=1)


def main():
    a = sys.argv[1:]
    if not a:
        print(__doc__)
        return 2
    jobs = int(os.environ.get("VERIF_JOBS", "14"))
    if "--jobs" in a:
        jobs = int(a[a.index("--jobs") + 1])
    if a[0] == "--replay":
        rec = json.load(open(a[1]))
        bins, err = build_replay(tree_hash())
        if bins is None:
            print("replay binary does not build:", err)
            return 2
        rp = native_replay(bins, rec["harness_fn"], a[1], rec.get("project", "incrate"))
        print(json.dumps(rp, indent=1))
        return 1 if any(o.get("exit") == 0 for o in rp.values()) else 0
    if a[0] == "--harness":
        th = tree_hash()
        rc = 0
        names = [x for x in a[1:] if not x.startswith("--")]
        for n in names:
            NEEDED.setdefault(registry.HARNESSES[n].get("project", "incrate"), []).append(registry.HARNESSES[n]["path"])
        with cf.ThreadPoolExecutor(max_workers=jobs) as ex:
            futs = [ex.submit(run_harness, n, th, "thorough", "--no-memo" not in a) for n in names]
            for fu in cf.as_completed(futs):
                r = fu.result()
                st = r.get("stats") or {}
                print("%-44s %-9s %6.1fs steps=%s vccs=%s vars=%s solver=%ss" % (
                    r["harness"], r["status"], r.get("wall_s", 0), st.get("steps"), st.get("vccs"), st.get("variables"),
                    st.get("solver_s")), flush=True)
                for c in r.get("failed", [])[:12]:
                    print("    FAILED %s | %s:%s | %s" % (c["description"], c["file"], c["line"], c["function"][:80]))
                for c in r.get("covers", []):
                    print("    cover %-40s %s" % (c["msg"], c["status"]))
                if r.get("detail"):
                    print("    detail:", r["detail"][-1500:])
                if r["status"] == "FAILED" and "--triage" in a:
                    for o in triage_failure(r["harness"], r, th, "DEV"):
                        print("    triage:", json.dumps({k: v for k, v in o.items() if k != "native"}))
                if r["status"] != "SUCCESS":
                    rc = 1
        return rc
    tier = os.environ.get("VERIF_TIER", "quick")
    if "--tier" in a:
        tier = a[a.index("--tier") + 1]
    return check_property(a[0], tier, jobs)


if __name__ == "__main__":
    sys.exit(main())
