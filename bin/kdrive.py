#!/usr/bin/env python3
"""kdrive — build the Kani goto-binaries of a project once, then run CBMC per harness in parallel.

Mirrors what `cargo kani` does per harness (see `cargo kani --verbose`):
  goto-cc link (done by --only-codegen) ; goto-instrument --add-library ; --generate-function-body
  assert-false-assume-false ; --drop-unused-functions ; --ensure-one-backedge-per-target ; cbmc --json-ui
but with per-harness unwind sets, memory / time caps and parallelism under our control.
"""
import glob
import hashlib
import json
import os
import re
import resource
import shutil
import subprocess
import sys
import time

KANI_HOME = os.path.expanduser("~/.kani/kani-0.68.0")
ENV = dict(os.environ, CARGO_NET_OFFLINE="true", CARGO_TERM_COLOR="never")
ENV["PATH"] = KANI_HOME + "/bin:" + ENV.get("PATH", "")

CBMC_BASE = [
    "--no-malloc-may-fail", "--no-undefined-shift-check", "--no-signed-overflow-check",
    "--no-self-loops-to-assumptions", "--no-pointer-primitive-check", "--object-bits", "16",
    "--sat-solver", "cadical", "--slice-formula",
]
CBMC_DEFAULT = ["--nan-check"]
# functional tier: only user assertions, covers, unwinding assertions (memory-safety checks are the C12 tier)
# (Rust's own panics — index, overflow, unwrap — are assertions in the goto program either way; unwinding
# assertions stay on, unlike Kani's --no-default-checks)
CBMC_NO_DEFAULT = ["--no-bounds-check", "--no-pointer-check", "--no-div-by-zero-check"]


def sh(cmd, **kw):
    return subprocess.run(cmd, stdout=subprocess.PIPE, stderr=subprocess.STDOUT, text=True, env=ENV, **kw)


def codegen(manifest_dir, target_dir, extra_args=(), log=None, harness_filter=(), rustflags=None):
    """cargo kani --only-codegen; returns {pretty_name: metadata} or raises with the compiler output"""
    cmd = ["cargo", "kani", "--only-codegen", "-Z", "stubbing", "-Z", "c-ffi", "--no-assertion-reach-checks",
           "--target-dir", target_dir] + list(extra_args)
    for h in harness_filter:
        cmd += ["--harness", h]
    t0 = time.time()
    env = dict(ENV)
    if rustflags:
        env["RUSTFLAGS"] = rustflags
    r = subprocess.run(cmd, stdout=subprocess.PIPE, stderr=subprocess.STDOUT, text=True, env=env, cwd=manifest_dir)
    if log:
        open(log, "w").write(" ".join(cmd) + "\n" + r.stdout)
    if r.returncode != 0:
        raise RuntimeError("codegen failed:\n" + r.stdout[-6000:])
    metas = {}
    newest = {}
    for f in glob.glob(os.path.join(target_dir, "kani", "**", "*.kani-metadata.json"), recursive=True):
        d = json.load(open(f))
        mt = os.path.getmtime(f)
        for h in d.get("proof_harnesses", []):
            out = h["goto_file"].replace(".symtab.out", ".out")
            if not os.path.exists(out):
                continue
            if h["pretty_name"] in metas and newest[h["pretty_name"]] > mt:
                continue
            h["linked_out"] = out
            metas[h["pretty_name"]] = h
            newest[h["pretty_name"]] = mt
    return metas, time.time() - t0, r.stdout


def prepare(meta, work_out, c_libs=()):
    """goto-cc link + entry point, then the three goto-instrument passes Kani applies before CBMC"""
    r = sh(["goto-cc", meta["goto_file"], KANI_HOME + "/library/kani/kani_lib.c"] + list(c_libs) + ["-o", work_out])
    if r.returncode != 0:
        raise RuntimeError("goto-cc link failed: " + r.stdout[-2000:])
    r = sh(["goto-cc", work_out, "--function", meta["mangled_name"], "-o", work_out])
    if r.returncode != 0:
        raise RuntimeError("goto-cc entry failed: " + r.stdout[-2000:])
    for args in (["--add-library", "--no-malloc-may-fail"],
                 ["--generate-function-body-options", "assert-false-assume-false", "--generate-function-body", ".*",
                  "--drop-unused-functions"],
                 ["--ensure-one-backedge-per-target"]):
        r = sh(["goto-instrument"] + args + [work_out, work_out])
        if r.returncode != 0:
            raise RuntimeError("goto-instrument failed: " + r.stdout[-2000:])


def show_loops(work_out):
    """[(loop_id, function, file, line)]"""
    r = sh(["cbmc", "--show-loops", "--json-ui", work_out])
    loops = []
    try:
        js = json.loads(r.stdout)
    except Exception:
        return loops
    for item in js:
        if isinstance(item, dict) and "loops" in item:
            for lp in item["loops"]:
                sl = lp.get("sourceLocation", {})
                loops.append((lp["name"], sl.get("function", ""), sl.get("file", ""), sl.get("line", "")))
    return loops


def list_functions(work_out):
    r = sh(["goto-instrument", "--list-goto-functions", work_out])
    fns = set()
    for ln in r.stdout.splitlines():
        m = re.match(r"^\s*(\S.*)$", ln)
        if m and ("opaque_ke" in ln or "voprf" in ln):
            fns.add(m.group(1).strip())
    return sorted(fns)


def _limits(mem_gb):
    def f():
        b = int(mem_gb * (1 << 30))
        resource.setrlimit(resource.RLIMIT_AS, (b, b))
        os.setsid()
    return f


RESULT_RE = re.compile(r"^\[(?P<prop>.+)\] line (?P<line>\d+) (?P<desc>.*): (?P<status>SUCCESS|FAILURE|UNKNOWN|ERROR|UNDETERMINED)$", re.S)


def parse_cbmc_text(out):
    """parse CBMC's plain-text result section -> (checks, covers, stats, verdict)"""
    stats = {"solver_s": 0.0}
    checks, covers = [], []
    verdict = None
    cur_file = cur_fn = ""
    pending = None
    in_results = False
    for ln in out.splitlines():
        if not in_results:
            m = re.search(r"size of program expression: (\d+) steps", ln)
            if m:
                stats["steps"] = int(m.group(1))
            m = re.search(r"Generated (\d+) VCC\(s\), (\d+) remaining after simplification", ln)
            if m:
                stats["vccs"] = [int(m.group(1)), int(m.group(2))]
            m = re.search(r"Runtime Solver: ([\d.e+-]+)s", ln)
            if m:
                stats["solver_s"] = round(stats["solver_s"] + float(m.group(1)), 3)
            m = re.search(r"Runtime Symex: ([\d.e+-]+)s", ln)
            if m:
                stats["symex_s"] = float(m.group(1))
            m = re.search(r"^(\d+) variables, (\d+) clauses", ln)
            if m:
                stats["variables"], stats["clauses"] = int(m.group(1)), int(m.group(2))
            if ln.startswith("** Results:"):
                in_results = True
            continue
        if ln.startswith("VERIFICATION "):
            verdict = ln.strip()
            continue
        if ln.startswith("** "):
            stats["summary"] = ln.strip()
            continue
        if pending is not None:
            pending += "\n" + ln
            m = RESULT_RE.match(pending)
            if m:
                _add(m, cur_file, cur_fn, checks, covers)
                pending = None
            continue
        if ln.startswith("["):
            m = RESULT_RE.match(ln)
            if m:
                _add(m, cur_file, cur_fn, checks, covers)
            else:
                pending = ln
            continue
        m = re.match(r"^(\S+) function (.*)$", ln)
        if m:
            cur_file, cur_fn = m.group(1), m.group(2)
    return checks, covers, stats, verdict


def _add(m, cur_file, cur_fn, checks, covers):
    prop = m.group("prop")
    parts = prop.rsplit(".", 2)
    klass = parts[-2] if len(parts) == 3 else ""
    desc = re.sub(r"^\[KANI_CHECK_ID_[^\]]*\] ?", "", m.group("desc"))
    rec = {"property": prop, "class": klass, "description": desc, "status": m.group("status"), "file": cur_file,
           "line": m.group("line"), "function": cur_fn}
    if klass == "cover":
        # Kani encodes cover!(c) as assert(!c): FAILURE == satisfied
        rec["cover"] = {"FAILURE": "SATISFIED", "SUCCESS": "UNSATISFIABLE"}.get(rec["status"], rec["status"])
        covers.append(rec)
    elif klass == "reachability_check":
        return
    else:
        checks.append(rec)


def run_cbmc(work_out, unwind, unwindset=(), default_checks=False, timeout_s=1800, mem_gb=12, log=None,
             extra=()):
    """returns dict(status, checks, covers, failed, stats, wall_s). Plain-text UI: the JSON UI attaches a full
    trace to every failed property (covers included) and produces gigabytes."""
    cmd = ["cbmc"] + CBMC_BASE
    cmd += CBMC_DEFAULT if default_checks else CBMC_NO_DEFAULT
    if unwind is not None:
        cmd += ["--unwind", str(unwind)]
    if unwindset:
        cmd += ["--unwindset", ",".join("%s:%d" % (k, v) for k, v in unwindset)]
    cmd += list(extra)
    cmd += [work_out, "--verbosity", "8"]
    t0 = time.time()
    logf = open(log, "w") if log else subprocess.PIPE
    if log:
        logf.write(" ".join(cmd) + "\n")
        logf.flush()
    try:
        p = subprocess.Popen(cmd, stdout=logf, stderr=subprocess.STDOUT, text=True, env=ENV,
                             preexec_fn=_limits(mem_gb))
        try:
            out, _ = p.communicate(timeout=timeout_s)
            rc = p.returncode
        except subprocess.TimeoutExpired:
            try:
                os.killpg(p.pid, 9)
            except Exception:
                p.kill()
            out, _ = p.communicate()
            rc = "timeout"
    except Exception as e:  # pragma: no cover
        out, rc = str(e), "spawn-error"
    wall = time.time() - t0
    if log:
        logf.close()
        out = open(log, errors="replace").read()
    res = {"cmd": " ".join(cmd), "rc": rc, "wall_s": round(wall, 2), "checks": [], "covers": [], "stats": {},
           "failed": [], "status": "ERROR"}
    if rc == "timeout":
        res["status"] = "TIMEOUT"
        return res
    checks, covers, stats, verdict = parse_cbmc_text(out)
    res.update(checks=checks, covers=covers, stats=stats, verdict=verdict)
    if verdict is None:
        res["tail"] = out[-1200:]
        res["status"] = "OOM" if re.search(r"[Oo]ut of memory|bad_alloc", out) else "ERROR"
        return res
    if re.search(r"ran out of memory|[Oo]ut of memory|bad_alloc", out):
        # CBMC reports the properties it could not decide as ERROR/UNKNOWN: nothing of this run is a verdict
        res["status"] = "OOM"
        res["tail"] = "solver ran out of memory (cap %s GB)" % mem_gb
        return res
    res["failed"] = [c for c in checks if c["status"] == "FAILURE"]
    undecided = [c for c in checks if c["status"] not in ("SUCCESS", "FAILURE")]
    if res["failed"]:
        res["status"] = "FAILED"
    elif undecided:
        res["status"] = "ERROR"
        res["tail"] = "undecided properties: %d (first: %s %s)" % (len(undecided), undecided[0]["description"], undecided[0]["status"])
    else:
        res["status"] = "SUCCESS"
    return res


if __name__ == "__main__":
    # manual use: kdrive.py <manifest_dir> <target_dir> <harness-substring> [unwindset k:v,...]
    md, td, pat = sys.argv[1:4]
    metas, t, _ = codegen(md, td)
    print("codegen %.1fs, %d harnesses" % (t, len(metas)))
    for name, h in metas.items():
        if pat not in name:
            continue
        w = h["linked_out"] + ".work"
        prepare(h, w)
        uws = []
        if len(sys.argv) > 4:
            uws = [(a.split(":")[0], int(a.split(":")[1])) for a in sys.argv[4].split(",")]
        r = run_cbmc(w, h["attributes"]["unwind_value"], uws, default_checks=("--default" in sys.argv),
                     log="/var/tmp/vk/last.log")
        print(name, r["status"], r["wall_s"], r["stats"])
        for c in r.get("failed", []):
            print("  FAILED", c["property"], c["description"], c["file"], c["line"])
        for c in r["covers"]:
            print("  cover", c["description"], c["cover"])
        if r["status"] in ("ERROR", "OOM"):
            print(r.get("tail", ""), r.get("errors"))
