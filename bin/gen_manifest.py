#!/usr/bin/env python3
"""regenerate /verif/MANIFEST.json from harness/registry.py (single source of truth for what each check runs)"""
import json, os, sys
HERE = os.path.dirname(os.path.abspath(__file__)); VERIF = os.path.dirname(HERE)
sys.path.insert(0, os.path.join(VERIF, "harness"))
import registry as R

props = [json.loads(l) for l in open(os.path.join(VERIF, "properties.jsonl"))]
LEVEL = {
 "C01": "Each of the eight public steps is shown, by bounded model checking of the real generic code over the model ciphersuite, to equal the RFC 9807 step from an arbitrary valid state and an arbitrary tape (light steps directly; the three heavy steps as wiring harnesses over unit references that are themselves proved equal to the real units); honest agreement of the composed reference is a solver-checked lemma.",
 "C02": "The client's accept/reject decision and error kind on every (password, response) pair within the bounds equal the RFC's (wiring harness + units); the password enters Blind and the length-prefixed Finalize input verbatim.",
 "C03": "Exact: for every 24-byte pending state and every 8-byte finalization the real ServerLogin::finish accepts iff the MAC equals HMAC(km3, transcript hash) and then returns the state's session key; otherwise InvalidLoginError. Every compression function is covered (uninterpreted hash).",
 "C04": "The client runs the key exchange only after credential recovery succeeded, hands the whole response head, its own request and state to it, and releases outputs only on Ok; generate_ke3 accepts iff the received MAC equals MAC(Km2, Hash(preamble)) (thorough tier).",
 "C05": "Length prefixes decided for every usize length (255/256/65535/65536 boundaries, refused not wrapped); identity defaulting, AAD order, Expand-Label limits, per-credential key derivation; injectivity of the prefixed encoding as a lemma.",
 "C06": "The registration response carries the setup's public key, login masks the setup's key (not a stored copy), the client returns the unmasked key and the envelope tag binds it (open_raw exact).",
 "C08": "The fake record (fresh masking key from the RNG, zero envelope, fake key), the identical evaluation function and response assembly for None and Some, the client's error mapping, and exactness of the server's final check.",
 "C09": "Step and unit equivalence to the reference model typed in from RFC 9807 / RFC 9497 over the model suite (labels, layouts, key schedule, pad, envelope, 3DH), plus Curve25519 DeriveDiffieHellmanKeyPair == RFC 7748 clamp for all seeds.",
 "C10": "For all 11 decoders of the model suite: Ok <=> exact length and all fields valid, and then re-encoding gives the input (lengths 0, L-1, L, L+1 quick; thorough: every length 0..L+64 for the small decoders, a window L-8..L+8 plus far lengths for the four large ones); byte-level decoders of the real groups (Curve25519 all inputs, ristretto255 / P-256 scalars, P-256 tag bytes).",
 "C11": "Every group-element / scalar field of every decoder is checked against the group's validity predicate (model suite), and the real groups' decoders reject zero / out-of-range scalars, unknown SEC1 tags, identity/uncompressed/compact tags and small-order Curve25519 points for all inputs.",
 "C12": "The listed harnesses are run with Kani's Rust panic checks and CBMC's memory-safety checks and unwinding assertions on: no reachable panic, overflow, out-of-bounds access or non-terminating loop within the bounds; over-long inputs refused for every usize length.",
 "C13": "decode(encode(x)) and encode(decode(b)) identities for all five persisted types for every byte string, a reloaded fresh setup, and every step harness starting from deserialized bytes.",
 "C14": "request = blind*HashToGroup(pw) with the blind being the tape value; the evaluation is the stated function of (seed, credential id, request) only (static key, fake key and password file are symbolic and irrelevant); password-derived keys equal a reference that does not mention the blind.",
 "C15": "The model KSF records calls: exactly one call per finish step, on Finalize(pw, blind, evaluation), with the instance passed (or the default), its output feeding Extract; a failing KSF is returned as error; explicit default == none.",
 "C16": "Export key formula identical at seal and open and independent of identities and context; it is what registration and login return; the envelope nonce is always fresh RNG output.",
 "C17": "Each random value equals a fixed function of its own tape segment, segments are disjoint, every drawn byte is accounted for (tape position), equal tapes give equal outputs; production blind() branch.",
 "C18": "With the model external key: same outputs as with a direct key, exactly the public_key / diffie_hellman calls, never serialize, failure at the n-th call returned as the same Custom error with no response.",
 "C19": "Byte-level laws of the real groups decided for all inputs: Curve25519 clamping/round trip/seeded derivation, ristretto255 and P-256 scalar range and round trip, P-256 tags.",
}
m = {"version": 1, "setup_cmd": "/verif/bin/setup",
     "hooks": {"guard": "cfg(kani) or --cfg opaque_ke_verif",
               "enable": "cargo kani sets cfg(kani) (harness modules under /verif/harness/incrate are compiled into opaque-ke through four `#[cfg(any(kani, opaque_ke_verif))] #[path=..] mod` lines); the native replay crate /verif/replay builds /repo with RUSTFLAGS='--cfg opaque_ke_verif'",
               "baseline_off_cmd": "cd /repo && cargo test --workspace --no-fail-fast --offline",
               "source_commits": ["bdfa00e", "d2b179a"], "add_only": True},
     "engines": [{"name": "kani-cbmc", "path": "/verif/bin/vcheck.py", "serves_properties": sorted(R.PROPERTIES),
                  "kind_free_text": "Kani 0.68 goto-programs of the real code (regenerated from /repo's working tree, content-hash keyed) + CBMC 6.11/CaDiCaL bounded model checking per harness (/verif/bin/kdrive.py), counterexamples extracted from a table-hash build and replayed natively (/verif/replay) before a VIOLATION is printed"}],
     "checks": [], "not_applicable": [],
     "notes": "Exit status 2 + INCONCLUSIVE lines = the check could not decide (harness no longer compiles, timeout, out of memory, vacuous cover, bound too small, counterexample that does not replay natively); never reported as a violation. Known findings: /verif/known_findings.json."}
for p in props:
    pid = p["id"]
    if pid in R.PROPERTIES:
        m["checks"].append({
            "property_id": pid, "quick_cmd": "/verif/bin/check %s --tier quick" % pid,
            "thorough_cmd": "/verif/bin/check %s --tier thorough" % pid,
            "evidence_file": "/verif/evidence/%s.json" % pid, "replay_cmd_template": "/verif/bin/check --replay {path}",
            "engine": "kani-cbmc",
            "level_claimed": {"category": "model_checking", "text": LEVEL[pid], "design_ref": "DESIGN.md §4 %s, §10" % pid},
            "level_note": "Bounded: model ciphersuite (uninterpreted hash, Z_251 / Z_241 groups), stated input sizes and loop bounds with unwinding assertions on. " + " ".join(R.PROPERTIES[pid].get("assumptions", []))[:1500],
            "technique": "solver-based bounded model checking of the real code (Kani/CBMC, SAT) against an RFC reference model"})
    else:
        m["not_applicable"].append({"property_id": pid, "reason": "C07 quantifies over adversarial routings of many sessions; a multi-session harness over the real code is out of reach (>= 4 heavy steps) and its 'cross-delivered message => reject' assertion is a computational statement that a solver refutes on correct code by choosing a colliding hash; what remains after removing that half (fresh nonces/keys per call, full transcript binding, exact RFC decision) is already C04/C09/C17's obligations (DESIGN.md §4 C07)"})
json.dump(m, open(os.path.join(VERIF, "MANIFEST.json"), "w"), indent=1)
print("checks:", len(m["checks"]), "n/a:", len(m["not_applicable"]))
